#!/bin/bash
# Build the overlay venv used by every check (offline: wheels from /opt/veriftools/wheels).
set -e
cd "$(dirname "$0")"
V=.venv
if [ ! -x $V/bin/python ] || ! $V/bin/python -c "import crosshair, z3" 2>/dev/null; then
  rm -rf $V
  /venv/bin/python -m venv $V
  SP=$($V/bin/python -c "import sysconfig; print(sysconfig.get_paths()['purelib'])")
  echo "import site; site.addsitedir('/venv/lib/python3.12/site-packages')" > "$SP/_vf_overlay.pth"
  PIP_NO_INDEX=1 $V/bin/pip install -q --no-index --find-links /opt/veriftools/wheels \
      crosshair-tool z3-solver cvc5 >/dev/null
fi
$V/bin/python -c "import crosshair, z3, cvc5; print('venv ok: crosshair', crosshair.__version__, 'z3', z3.get_version_string(), 'cvc5', cvc5.__version__)"
