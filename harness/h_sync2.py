"""Round-4 CrossHair harnesses on the sync section as a whole and on several tempo maps in one process.

* sync_section   - SyncTrack.from_chart_lines on token lines: up to 3 tempo lines (tokens chosen by the
                   solver, equal neighbours and zero tempos included), a second signature with an exponent,
                   an anchor on or off a tempo tick; values, times and rejections against the statement.
* zero_tempo_long - queries on a K-event map with one zero tempo at any position, every hint.
* two_maps       - the same tick asked of two (three) different tempo maps in one process, the first map
                   possibly freed and its address reused: each map answers for itself.
"""
from __future__ import annotations

import gc
from datetime import timedelta as _real_td

import vf.h as H
import vf.tok as K
from vf.h import AbsTime, Clock, done

import chartparse.sync as S
from chartparse.sync import BPMEvent, BPMEvents
from harness.h_integrated import env
from harness.h_sync import BPMS, governing

RAWS = ["120000", "60500", "120000", "1", "0"]          # tempo tokens ("0" = zero tempo; 0 and 2 are equal)
MULT = {120.0: 5, 60.5: 11, 0.001: 13, 0.0: 1}
import os  # noqa: E402

RIDX = [int(x) for x in os.environ.get("VF_RAWS", "0,1,3").split(",")]   # tempo token per B line (partition)
NB = len(RIDX)
LOWS = [0, 1, 2, 3, 5, 9, 16]


def sync_section(R: int, t1: int, t2: int, tst: int, u: int, li: int, has_l: bool,
                 aw: int, at: int, au: int, u0: int = 4) -> bool:
    """
    pre: R >= 1 and 0 < t1 < t2 and tst >= 0 and u >= 0 and at >= 0 and au >= 0 and u0 >= 0
    pre: 0 <= li < len(LOWS) and 0 <= aw <= 2
    post: _
    """
    ticks = [0, t1, t2][:NB]
    raws = [RAWS[r] for r in RIDX]
    low = H.pick(LOWS, li)
    a_tick = at if aw == 0 else ticks[min(aw, NB - 1)]          # anchor off / on a tempo tick
    lines = [K.TS(0, u0)] + [K.B(ticks[i], raws[i]) for i in range(NB)]
    lines.insert(2, K.A(a_tick, au))                            # Moonscraper writes A next to B
    lines.append(K.TS(tst, u, low) if has_l else K.TS(tst, u))
    bpm = [int(r) / 1000 for r in raws]
    # exact time of a tick under the linear stand-in clock
    stamps = [0]
    for i in range(1, NB):
        stamps.append(stamps[i - 1] + MULT[bpm[i - 1]] * (ticks[i] - ticks[i - 1]))
    g = governing(ticks, tst)
    # rejected exactly when a zero tempo governs something that needs a time: the next tempo event,
    # or a signature (tick 0 and tst)
    bad = bpm[0] == 0.0 or bpm[g] == 0.0
    for i in range(NB - 1):
        bad = bad or bpm[i] == 0.0
    with env(Clock("linear", mult=MULT)):
        try:
            st = S.SyncTrack.from_chart_lines(R, iter(lines))
            # C11: what is stored on an event is what the un-hinted query says for its tick
            q = st.bpm_events.timestamp_at_tick_no_optimize_return(tst)
        except ValueError:
            return done(bad)
    if bad:
        return done(False)
    be = st.bpm_events
    ok = be.resolution == R and len(be) == NB and len(st.time_signature_events) == 2 and len(st.anchor_events) == 1
    if not ok:
        return done(False)
    for i in range(NB):
        e = be[i]
        ok = ok and e.tick == ticks[i] and e.bpm == bpm[i] and e.timestamp.us == stamps[i] and e._proximal_bpm_event_index == i
    e = st.time_signature_events[0]
    ok = ok and e.tick == 0 and e.timestamp.us == 0 and e.upper_numeral == u0 and e.lower_numeral == 4
    e = st.time_signature_events[1]
    ok = ok and e.tick == tst and e.timestamp.us == stamps[g] + MULT[bpm[g]] * (tst - ticks[g])
    ok = ok and e.upper_numeral == u and e.lower_numeral == (2 ** low if has_l else 4) and q.us == e.timestamp.us
    a = st.anchor_events[0]
    ok = ok and a.tick == a_tick and a.timestamp.us == au
    return done(ok)


# ---------------------------------------------------------------------------------------------
KZ = H.part("VF_KZ", 5)


def _incz(ts):
    prev = 0
    for i in range(KZ - 1):
        if not prev < ts[i]:
            return False
        prev = ts[i]
    return all(t == 0 for t in ts[KZ - 1:])


def zero_tempo_long(t1: int, t2: int, t3: int, t4: int, t5: int, t6: int, t7: int, tick: int, hint: int, which: int) -> bool:
    """
    pre: _incz([t1, t2, t3, t4, t5, t6, t7])
    pre: tick >= -2 and 0 <= hint <= KZ and 0 <= which < KZ
    post: _
    """
    ticks = ([0, t1, t2, t3, t4, t5, t6, t7])[:KZ]
    bp = [BPMS[i % 6] for i in range(KZ)]
    bp[which] = 0.0
    evs = [BPMEvent(tick=ticks[i], timestamp=AbsTime(1000 * i), bpm=bp[i], _proximal_bpm_event_index=i) for i in range(KZ)]
    be = BPMEvents(events=evs, resolution=192)
    mult = {b: 7 for b in BPMS}
    mult[0.0] = 1
    g = governing(ticks, tick)
    with H.abstract_time(Clock("linear", mult=mult)):
        try:
            ts, idx = be.timestamp_at_tick(tick, start_iteration_index=hint)
        except ValueError:
            return done(tick < 0 or g == which or hint > g)
    return done(tick >= 0 and g != which and hint <= g and idx == g and ts.us == 1000 * g + 7 * (tick - ticks[g]))


# ---------------------------------------------------------------------------------------------
def _map(ticks, mults_key, R):
    evs = [BPMEvent(tick=t, timestamp=AbsTime(0 if i == 0 else 1000 * i + 17), bpm=mults_key[i], _proximal_bpm_event_index=i)
           for i, t in enumerate(ticks)]
    return BPMEvents(events=evs, resolution=R)


def _same_address_map(old_id, ticks, bpms, R):
    """Build maps until one lands on the address of a freed one (scaffolding; may give up)."""
    keep = []
    for _ in range(12):
        m = _map(ticks, bpms, R)
        if id(m) == old_id:
            return m, True
        keep.append(m)
    return m, False


def two_maps(a1: int, b1: int, tick: int, R1: int, R2: int, free_first: bool, via: int) -> bool:
    """
    pre: a1 > 0 and b1 > 0 and tick >= 0 and R1 >= 1 and R2 >= 1 and 0 <= via <= 1
    post: _
    """
    # the same tick asked of two tempo maps with different change points, tempos and resolutions;
    # each must answer from its own data (affine stand-in kernel: depends on tempo AND resolution)
    from harness.h_sync import AFF, aff
    A = _map([0, a1], [BPMS[0], BPMS[1]], R1)
    bt, bb = [0, b1], [BPMS[2], BPMS[3]]

    def ask(m):
        if via == 0:
            return m.timestamp_at_tick_no_optimize_return(tick)
        return m.timestamp_at_tick(tick, start_iteration_index=0)[0]

    def want(ticks, bpms, R):
        g = governing(ticks, tick)
        return (0 if g == 0 else 1000 * g + 17) + aff(tick - ticks[g], bpms[g], R)

    with H.abstract_time(Clock("affine", mult=AFF)):
        ok = ask(A).us == want([0, a1], [BPMS[0], BPMS[1]], R1)
        if free_first:
            old = id(A)
            del A
            with H.untraced():
                gc.collect()
            B, _reused = _same_address_map(old, bt, bb, R2)
        else:
            B = _map(bt, bb, R2)
        ok = ok and ask(B).us == want(bt, bb, R2)
        ok = ok and ask(B).us == want(bt, bb, R2)           # and again (a repeated question)
        if not free_first:
            ok = ok and ask(A).us == want([0, a1], [BPMS[0], BPMS[1]], R1)
    return done(ok)


# ---------------------------------------------------------------------------------------------
_NEG = None


def _neg_values():
    from fractions import Fraction
    return [-1, -0.5, -1e-9, Fraction(-1, 3), -0.999999, -7, -2.5, Fraction(-5, 2), -(2 ** 70), float("-inf")]


def negative_tick_forms(k: int, hint: int, via: int) -> bool:
    """
    pre: 0 <= k < 10 and 0 <= hint <= 2 and 0 <= via <= 1
    post: _
    """
    # "no query for a negative tick ever returns a time": negative positions in every numeric form a
    # caller may hold (ints, floats, fractions - e.g. computed as a difference); rejected, never timed
    v = H.pick(_neg_values(), k)
    evs = [BPMEvent(tick=0, timestamp=AbsTime(0), bpm=BPMS[0], _proximal_bpm_event_index=0),
           BPMEvent(tick=100, timestamp=AbsTime(700), bpm=BPMS[1], _proximal_bpm_event_index=1)]
    be = BPMEvents(events=evs, resolution=192)
    with H.abstract_time(Clock("linear", mult={BPMS[0]: 7, BPMS[1]: 3})):
        try:
            if via == 0:
                be.timestamp_at_tick(v, start_iteration_index=hint)
            else:
                be.timestamp_at_tick_no_optimize_return(v)
        except (ValueError, TypeError, OverflowError):
            return done(True)
        except H.Poison:
            return done(True)          # the value reached the (stubbed) kernel as a distance: not a returned time either
    return done(False)


# ---------------------------------------------------------------------------------------------
BIG_K = [50, 500, 990, 1000, 1010, 1500, 3000, 12000]


def lookup_file_scale(ki: int, hk: int, qi: int) -> bool:
    """
    pre: 0 <= ki < len(BIG_K) and 0 <= hk <= 3 and 0 <= qi <= 2
    post: _
    """
    # beat-by-beat tempo-mapped songs: thousands of tempo events.  The query for a late tick gives the
    # same answer from hint 0, from a near hint and from the exact hint, and no internal limit is hit
    n = H.pick(BIG_K, ki)
    hk_, qi_ = H.pick([0, 1, 2, 3], hk), H.pick([0, 1, 2], qi)
    with H.untraced():
        evs = [BPMEvent(tick=192 * i, timestamp=_real_td(microseconds=500000 * i), bpm=120.0, _proximal_bpm_event_index=i) for i in range(n)]
        be = BPMEvents(events=evs, resolution=192)
        g = [n - 1, n // 2, n - 2][qi_]
        tick = 192 * g + 7
        hint = [0, max(g - 3, 0), g, g // 2][hk_]
        ts0, i0 = be.timestamp_at_tick(tick, start_iteration_index=hint)
        ts1 = be.timestamp_at_tick_no_optimize_return(tick)
        ok = i0 == g and ts0 == ts1 and ts0 == _real_td(microseconds=500000 * g) + _real_td(seconds=7 * 60 / (120.0 * 192))
    return done(ok)
