"""CrossHair harnesses on the event constructors and the generic builders (chartparse.track)."""
from __future__ import annotations

import vf.h as H
from vf.h import AbsTime, Clock, done

import chartparse.globalevents as G
import chartparse.instrument as I
import chartparse.sync as S
import chartparse.track as T
from chartparse.sync import BPMEvent, BPMEvents
from harness.h_sync import BPMS, governing, mk_events

KIND = H.part("VF_KIND", 0)
KINDS = ["TS", "SP", "TE", "TXT", "SEC", "LYR"]
M = H.part("VF_M", 2)


def _mk(kind, tick, a, b):
    """(event class, parsed datum, payload checker) for a constructor kind."""
    if kind == "TS":
        d = S.TimeSignatureEvent.ParsedData(tick=tick, upper=a, lower=None if b < 0 else b)
        return S.TimeSignatureEvent, d, lambda e: e.upper_numeral == a and (
            e.lower_numeral == 4 if b < 0 else e.lower_numeral == 2 ** b)
    if kind == "SP":
        d = I.StarPowerEvent.ParsedData(tick=tick, sustain=a)
        return I.StarPowerEvent, d, lambda e: e.sustain == a
    if kind == "TE":
        d = I.TrackEvent.ParsedData(tick=tick, value="solo")
        return I.TrackEvent, d, lambda e: e.value == "solo"
    cls = {"TXT": G.TextEvent, "SEC": G.SectionEvent, "LYR": G.LyricEvent}[kind]
    d = cls.ParsedData(tick=tick, value="v a\"l")
    return cls, d, lambda e: e.value == "v a\"l"


def constructor_dataflow(prev_tick: int, tick: int, a: int, b: int, tb: int, has_prev: bool) -> bool:
    """
    pre: 0 <= prev_tick <= tick and a >= 0 and -1 <= b <= 6 and tb > 0
    post: _
    """
    from harness.h_instrument import FuncTempo
    kind = KINDS[KIND]
    cls, d, payload_ok = _mk(kind, tick, a, b)
    tempo = FuncTempo(192, tb)
    prev = None
    if has_prev:
        pcls, pd, _ = _mk(kind, prev_tick, 0, 0)
        prev = pcls.from_parsed_data(pd, None, tempo)
    ev = cls.from_parsed_data(d, prev, tempo)       # sorted input: must not be rejected
    ok = type(ev) is cls and ev.tick == tick and ev.timestamp.us == tempo.F(tick)
    # the stored index must be usable as a hint for any later tick of this section
    ok = ok and 0 <= ev._proximal_bpm_event_index <= tempo.G(tick) and payload_ok(ev)
    if has_prev:
        ok = ok and prev.tick == prev_tick and prev.timestamp.us == tempo.F(prev_tick)
    return done(ok)


class _RecEvent:
    """Recorder event type for the generic builder (S5)."""

    calls: list = []

    def __init__(self, j):
        self.j = j

    @classmethod
    def from_parsed_data(cls, data, prev_event, bpm_events):
        j = len(cls.calls)
        cls.calls.append((data, prev_event, bpm_events))
        return cls(j)


def builder_threading(n: int) -> bool:
    """
    pre: 0 <= n <= 4
    post: _
    """
    # the generic builder passes each datum once, in order, with the previous *result* as prev
    _RecEvent.calls = []
    datas = [object() for _ in range(4)][:n]
    tempo = object()
    out = T.build_events_from_data(_RecEvent, datas, tempo)
    ok = len(out) == n and len(_RecEvent.calls) == n
    if not ok:
        return done(False)
    for j in range(n):
        d, prev, be = _RecEvent.calls[j]
        ok = ok and d is datas[j] and be is tempo and out[j].j == j
        ok = ok and (prev is None if j == 0 else prev is out[j - 1])
    return done(ok)


# ---------------------------------------------------------------------------------------------
# C11 obligation 4: chain on the real code, arbitrary tick order
# ---------------------------------------------------------------------------------------------
MULT = {BPMS[0]: 5, BPMS[1]: 11, BPMS[2]: 3}


def chain_any_order(t1: int, t2: int, a: int, b: int, c: int) -> bool:
    """
    pre: 0 < t1 < t2
    pre: a >= 0 and b >= 0 and c >= 0
    post: _
    """
    ticks = [0, t1, t2]
    stamps = [AbsTime(0), AbsTime(5 * t1), AbsTime(5 * t1 + 11 * (t2 - t1))]
    be = BPMEvents(events=mk_events(ticks, stamps), resolution=192)
    kind = KINDS[KIND]
    evt = [a, b, c][:M]
    cls = None
    datas = []
    for t in evt:
        cls, d, _ = _mk(kind, t, 1, 2)
        datas.append(d)
    clock = Clock("linear", mult=MULT)
    with H.abstract_time(clock):
        try:
            evs = T.build_events_from_data(cls, datas, be)
        except ValueError:
            return done(True)   # loud rejection is allowed for unsorted input
        ok = len(evs) == len(evt)
        for j in range(len(evt)):
            ts, idx = be.timestamp_at_tick(evt[j])
            g = governing(ticks, evt[j])
            ok = ok and evs[j].tick == evt[j] and evs[j].timestamp == ts
            ok = ok and evs[j]._proximal_bpm_event_index == idx == g
            ok = ok and ts.us == stamps[g].us + (evt[j] - ticks[g]) * [5, 11, 3][g]
    return done(ok)


def chain_sorted_never_rejected(t1: int, t2: int, a: int, b: int, c: int) -> bool:
    """
    pre: 0 < t1 < t2
    pre: 0 <= a <= b <= c
    post: _
    """
    # sorted input is well-formed: the builder must not raise
    ticks = [0, t1, t2]
    stamps = [AbsTime(0), AbsTime(5 * t1), AbsTime(5 * t1 + 11 * (t2 - t1))]
    be = BPMEvents(events=mk_events(ticks, stamps), resolution=192)
    kind = KINDS[KIND]
    evt = [a, b, c][:M]
    cls = None
    datas = []
    for t in evt:
        cls, d, _ = _mk(kind, t, 1, 2)
        datas.append(d)
    clock = Clock("linear", mult=MULT)
    with H.abstract_time(clock):
        evs = T.build_events_from_data(cls, datas, be)
    return done(len(evs) == len(evt))
