"""Whole-chart CrossHair harness: the real Chart.from_file (framing, routing, all four section parsers,
every event constructor) on token lines with symbolic integers.

Covers the wiring *between* sections that the per-section harnesses cannot see: the resolution read from
[Song] is the one every track is timed and HOPO-judged with; no other [Song] value (Offset, Difficulty,
PreviewStart, ...) and no anchor moves any time; every event kind of every section is stamped by the
one tempo map of [SyncTrack]; tick 0 is time zero.
"""
from __future__ import annotations

import vf.h as H
import vf.tok as K
from vf.h import Clock, done

import chartparse.chart as C
import chartparse.track as T
from chartparse.chart import Chart
from chartparse.instrument import Difficulty, HOPOState, Instrument
from chartparse.metadata import Player2Instrument
from harness.h_integrated import env
from harness.h_metadata import _patches as _md_patches

VARIANT = H.part("VF_E2E", 0)      # which optional lines the chart carries (bit 1: [Song] numbers, 2: signature+anchors, 4: Player2)
SL = H.part("VF_E2E_SL", -1)       # partition: [Song] section first (0) / last (1); -1: symbolic


class _TokText(str):
    """The text of a chart whose lines are token lines: only ``splitlines()`` is modelled (what the
    library is documented to use, vf/structure.py); any other way of taking the text apart is outside
    the model (Poison: the harness cannot judge)."""

    _vf_abstract = True

    def __new__(cls, lines):
        self = str.__new__(cls, "<token text>")
        self.lines_ = list(lines)
        return self

    def splitlines(self, keepends=False):
        if keepends:
            raise H.Poison("splitlines(keepends=True) on token text")
        return list(self.lines_)

    def _no(self, *a, **k):
        raise H.Poison("token text taken apart by something other than splitlines()")

    split = rsplit = partition = rpartition = replace = strip = lstrip = rstrip = find = index = _no
    __iter__ = __getitem__ = __len__ = __contains__ = encode = translate = expandtabs = _no


class _TokFile:
    def __init__(self, lines):
        self.t = _TokText(lines)

    def read(self, *a):
        if a and a[0] not in (None, -1):
            raise H.Poison("partial read of the token file")
        return self.t

    def __getattr__(self, name):
        # iteration, readline(s), seek ...: the token file only models read(); anything else is outside
        # the model (the harness cannot judge), never a deviation of the code under test
        raise H.Poison("token file used through %r (only read() is modelled)" % name)

    def __iter__(self):
        raise H.Poison("token file iterated (only read() is modelled)")


def _time(tb, tick):
    """The linear stand-in clock's exact tempo-map time: 5 us/tick up to tb, 11 us/tick after."""
    if tick < tb:
        return 5 * tick
    return 5 * tb + 11 * (tick - tb)


def _md_line(pascal, value, kind="int"):
    K._SERIAL[0] += 1
    if kind == "int":
        return K.TokLine(pascal, (K.Digits(value),), "  %s = %d" % (pascal, K._SERIAL[0]))
    return K.TokLine(pascal, (value,), '  %s = "value %d"' % (pascal, K._SERIAL[0]))


def chart_e2e(R: int, off: int, dif: int, pv: int, tb: int, tst: int, gt: int, n0: int, n1: int, u0: int,
              sps: int, spl: int, au: int, song_last: bool) -> bool:
    """
    pre: R >= 1 and off >= 0 and dif >= 0 and pv >= 0 and au >= 0
    pre: tb > 0 and tst >= 0 and gt >= 0 and 0 <= n0 < n1 and u0 >= 0 and sps >= 0 and spl >= 0
    pre: SL < 0 or song_last == (SL == 1)
    post: _
    """
    song = [_md_line("Name", "n", "str"), _md_line("Resolution", R)]
    if VARIANT & 1:
        song = [_md_line("Offset", off)] + song + [_md_line("Difficulty", dif), _md_line("PreviewStart", pv), _md_line("PreviewEnd", pv)]
    if VARIANT & 4:
        song.append(K.TokLine("Player2", ("rhythm",), "  Player2 = rhythm"))
    sync = [K.TS(0, 4), K.B(0, "120000"), K.B(tb, "60500")]
    if VARIANT & 2:
        sync += [K.TS(tst, 3, 3), K.A(tb, au), K.A(0, au)]
    events = [K.GE("SEC", gt, "intro"), K.GE("TXT", gt, "end")]
    track = [K.N(n0, 0, u0), K.S(sps, spl), K.N(n1, 1, 0), K.E(n1, "solo")]
    secs = [("Song", song), ("SyncTrack", sync), ("Events", events), ("ExpertSingle", track), ("EasyDoubleBass", [K.N(n1, 2, 0)])]
    if song_last:
        secs = secs[1:] + secs[:1]
    lines = []
    for tag, body in secs:
        lines += ["[" + tag + "]", "{"] + body + ["}"]
    with env(Clock("linear", mult={120.0: 5, 60.5: 11})):
        with H.patched(*(_md_patches() + [(C, "logger", H.CountingLogger())])):
            chart = Chart.from_file(_TokFile(lines))
            # the public query on the parsed chart's own tempo map
            q = chart.sync_track.bpm_events.timestamp_at_tick_no_optimize_return(n1)
    md, st, ge = chart.metadata, chart.sync_track, chart.global_events_track
    # [Song]
    ok = md.resolution == R and md.name == "n"
    if VARIANT & 1:
        ok = ok and md.offset == off and md.difficulty == dif and md.preview_start == pv and md.preview_end == pv
    else:
        ok = ok and md.offset == 0 and md.difficulty == 0 and md.preview_start == 0
    ok = ok and md.player2 is (Player2Instrument.RHYTHM if VARIANT & 4 else Player2Instrument.BASS)
    # [SyncTrack]: tempo events, signatures, anchors; the tempo map carries the [Song] resolution
    be = st.bpm_events
    ok = ok and be.resolution == R and len(be) == 2
    if not ok:
        return done(False)
    ok = ok and be[0].tick == 0 and be[0].timestamp.us == 0 and be[0].bpm == 120.0
    ok = ok and be[1].tick == tb and be[1].timestamp.us == 5 * tb and be[1].bpm == 60.5
    nts = 2 if VARIANT & 2 else 1
    ok = ok and len(st.time_signature_events) == nts and len(st.anchor_events) == (2 if VARIANT & 2 else 0)
    if not ok:
        return done(False)
    e = st.time_signature_events[0]
    ok = ok and e.tick == 0 and e.timestamp.us == 0 and e.upper_numeral == 4 and e.lower_numeral == 4
    if VARIANT & 2:
        e = st.time_signature_events[1]
        ok = ok and e.tick == tst and e.timestamp.us == _time(tb, tst) and e.upper_numeral == 3 and e.lower_numeral == 8
    # [Events]
    ok = ok and len(ge.section_events) == 1 and len(ge.text_events) == 1 and len(ge.lyric_events) == 0
    if not ok:
        return done(False)
    for e in (ge.section_events[0], ge.text_events[0]):
        ok = ok and e.tick == gt and e.timestamp.us == _time(tb, gt)
    ok = ok and ge.section_events[0].value == "intro" and ge.text_events[0].value == "end"
    # tracks
    it = chart.instrument_tracks
    ok = ok and set(it.keys()) == {Instrument.GUITAR, Instrument.BASS}
    ok = ok and set(it[Instrument.GUITAR].keys()) == {Difficulty.EXPERT} and set(it[Instrument.BASS].keys()) == {Difficulty.EASY}
    if not ok:
        return done(False)
    tr = it[Instrument.GUITAR][Difficulty.EXPERT]
    ok = ok and tr.instrument is Instrument.GUITAR and tr.difficulty is Difficulty.EXPERT
    ok = ok and len(tr.note_events) == 2 and len(tr.star_power_events) == 1 and len(tr.track_events) == 1
    if not ok:
        return done(False)
    a, b = tr.note_events
    ok = ok and a.tick == n0 and a.timestamp.us == _time(tb, n0) and a.sustain == u0 and a.end_tick == n0 + u0
    ok = ok and a.end_timestamp.us == _time(tb, n0 + u0) and tuple(a.note.value) == (1, 0, 0, 0, 0)
    ok = ok and b.tick == n1 and b.timestamp.us == _time(tb, n1) and b.end_timestamp.us == _time(tb, n1)
    ok = ok and tuple(b.note.value) == (0, 1, 0, 0, 0)
    ok = ok and a.hopo_state is HOPOState.STRUM
    ok = ok and b.hopo_state is (HOPOState.HOPO if 3 * (n1 - n0) <= R + 1 else HOPOState.STRUM)   # the [Song] resolution
    sp = tr.star_power_events[0]
    ok = ok and sp.tick == sps and sp.sustain == spl and sp.timestamp.us == _time(tb, sps)
    for ev in (a, b):
        inside = sps <= ev.tick and ev.tick < sps + spl
        ok = ok and ((ev.star_power_data is not None and ev.star_power_data.star_power_event_index == 0) if inside
                     else ev.star_power_data is None)
    te = tr.track_events[0]
    ok = ok and te.tick == n1 and te.value == "solo" and te.timestamp.us == _time(tb, n1)
    t2 = it[Instrument.BASS][Difficulty.EASY]
    ok = ok and len(t2.note_events) == 1 and t2.note_events[0].tick == n1 and t2.note_events[0].timestamp.us == _time(tb, n1)
    ok = ok and t2.instrument is Instrument.BASS and t2.difficulty is Difficulty.EASY
    ok = ok and q.us == _time(tb, n1)
    return done(ok)
