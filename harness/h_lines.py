"""CrossHair harnesses on line-level code: from_chart_line decoding, newline handling, framing errors."""
from __future__ import annotations

import vf.h as H
import vf.tok as K
from vf.h import done

import chartparse.chart as C
import chartparse.globalevents as G
import chartparse.instrument as I
import chartparse.sync as S
from chartparse.chart import Chart
from chartparse.exceptions import RegexNotMatchError

KIND = H.part("VF_KIND", 0)
MAXD = H.part("VF_MAXD", 3)

CLASSES = [("N", I.NoteEvent.ParsedData), ("S", I.StarPowerEvent.ParsedData), ("E", I.TrackEvent.ParsedData),
           ("B", S.BPMEvent.ParsedData), ("TS", S.TimeSignatureEvent.ParsedData), ("A", S.AnchorEvent.ParsedData),
           ("LYR", G.LyricEvent.ParsedData), ("SEC", G.SectionEvent.ParsedData), ("TXT", G.TextEvent.ParsedData)]


def _digits(s):
    if len(s) < 1 or len(s) > MAXD:
        return False
    for ch in s:
        if not ("0" <= ch <= "9"):
            return False
    return True


def _val(s):
    v = 0
    for ch in s:
        v = v * 10 + (ord(ch) - 48)
    return v


class _Prog:
    """Stub compiled pattern handing out *symbolic strings* as groups (real int() decodes them)."""

    def __init__(self, groups, matches):
        self.g, self.m = groups, matches
        self.pattern = "stub"

    def match(self, line):
        return K.StubMatch(self.g) if self.m else None


SYM = H.part("VF_SYM", 0)     # which capture group is the symbolic digit string
_LINE_RUN = [0]


def decode_line(x: str, idx: int, has_c: bool, matches: bool) -> bool:
    """
    pre: _digits(x)
    pre: 0 <= idx <= 7
    pre: (KIND == 0 and SYM == 2) or idx == 0
    pre: not (KIND == 0 and SYM == 2) or x == "5"
    post: _
    """
    kind, cls = CLASSES[KIND]
    a, b, c = "907", "0051", "12"
    if SYM == 0:
        a = x
    elif SYM == 1:
        b = x
    else:
        c = x
    word = "so\"lo"
    if kind == "E" and SYM == 1:
        word = x            # a track event whose word consists of digits only is still a word, kept verbatim
    if kind == "N":
        groups = (a, "01234567"[idx], b)
    elif kind in ("S", "A"):
        groups = (a, b)
    elif kind == "B":
        groups = (a, b)
    elif kind == "TS":
        groups = (a, b, c if has_c else None)
    else:
        groups = (a, word)
    _LINE_RUN[0] += 1
    # unique per explored path (see h_track.fresh_lines) and with the literal skeleton of its kind, so
    # that code which pre-filters on the text before using the (stubbed) recogniser sees such a line
    line = K.SKELETON[kind] % _LINE_RUN[0]
    with H.patched((cls, "_regex_prog", _Prog(groups, matches))):
        try:
            d = cls.from_chart_line(line)
        except RegexNotMatchError:
            return done(not matches)
    ok = matches and type(d) is cls and d.tick == _val(a)
    if kind == "N":
        ok = ok and d.note_track_index.value == idx and d.sustain == _val(b)
    elif kind == "S":
        ok = ok and d.sustain == _val(b)
    elif kind == "A":
        ok = ok and d.microseconds == _val(b)
    elif kind == "B":
        ok = ok and d.raw_bpm == b
    elif kind == "TS":
        ok = ok and d.upper == _val(b) and (d.lower == _val(c) if has_c else d.lower is None)
    else:
        ok = ok and isinstance(d.value, str) and d.value == word
    return done(ok)


# ---------------------------------------------------------------------------------------------
# C06 obligation 4: newline independence of the line split
# ---------------------------------------------------------------------------------------------


def _no_breaks(s):
    for ch in s:
        if ch in "\n\r\x0b\x0c\x1c\x1d\x1e\x85  ":
            return False
    return True


def newline_independence(a: str, b: str, c: str) -> bool:
    """
    pre: "\n" not in a and "\r" not in a and "\n" not in b and "\r" not in b and "\n" not in c and "\r" not in c
    pre: len(a) <= MAXD and len(b) <= MAXD and len(c) <= MAXD
    post: _
    """
    # whatever other characters the lines contain, LF and CRLF texts split into the same lines
    lf = a + "\n" + b + "\n" + c + "\n"
    crlf = a + "\r\n" + b + "\r\n" + c + "\r\n"
    x, y = lf.splitlines(), crlf.splitlines()
    return done(x == y)


def from_file_uses_splitlines() -> bool:
    """
    post: _
    """
    # structural fact used with newline_independence: from_file splits with str.splitlines()
    import ast
    import inspect
    import textwrap
    src = textwrap.dedent(inspect.getsource(Chart.from_file.__func__))
    calls = [n for n in ast.walk(ast.parse(src)) if isinstance(n, ast.Call) and isinstance(n.func, ast.Attribute)]
    names = [n.func.attr for n in calls]
    return done("splitlines" in names and "split" not in names)


# ---------------------------------------------------------------------------------------------
# C18 obligation 1: framing of arbitrary line sequences raises only RegexNotMatchError
# ---------------------------------------------------------------------------------------------
NLINES = H.part("VF_NLINES", 4)


class _HeaderProg:
    """S7 summary of the header pattern (RX proves it equal to the shipped pattern on newline-free strings)."""

    pattern = "header-summary"

    def match(self, s):
        if len(s) >= 3 and s[0] == "[" and s[len(s) - 1] == "]":
            return K.StubMatch((s[1:len(s) - 1],))
        return None


SHAPES = ["[Song]", "[X]", "{", "}", "", "0 = N 0 0", "[]", "[a]b", " [Song]", "}}"]
K0 = H.part("VF_K0", -1)


def framing_errors(k0: int, k1: int, k2: int, k3: int, k4: int, k5: int) -> bool:
    """
    pre: all(0 <= k < len(SHAPES) for k in [k0, k1, k2, k3, k4, k5][:NLINES]) and all(k == 0 for k in [k0, k1, k2, k3, k4, k5][NLINES:])
    pre: K0 < 0 or k0 == K0
    post: _
    """
    # arbitrary sequences of line shapes (headers, braces, blanks, near-headers, body lines): the
    # framing either returns a dict or raises RegexNotMatchError - nothing else
    lines = [SHAPES[k] for k in [k0, k1, k2, k3, k4, k5][:NLINES]]
    try:
        d = Chart._partition_lines_by_data_section(lines)
        for key in d:
            list(d[key])
    except RegexNotMatchError:
        return done(True)
    return done(isinstance(d, dict))


# ---------------------------------------------------------------------------------------------
# C14 with the real recognisers: unsupported / foreign / garbage lines inserted into a section
# ---------------------------------------------------------------------------------------------
import chartparse.track as T  # noqa: E402
from chartparse.instrument import Difficulty, Instrument, InstrumentTrack  # noqa: E402
from chartparse.sync import BPMEvent, BPMEvents  # noqa: E402
from datetime import timedelta  # noqa: E402

INSERTS = [None, "  5 = N 8 0", "  5 = N 9 10", "  5 = S 64 3", "  5 = S 0 3", "  5 = E two words", "garbage",
           "  5 = B 120000", "  5 = N 10 0", "  5 = N 0", "5 = TS 4", '  5 = E "section x"', "  {junk}", "  96 = N {2} 0"]
BASE_SECTION = ["  0 = N 0 0", "  96 = N 1 48", "  96 = S 2 10", "  192 = E solo"]
NSLOTS = H.part("VF_NSLOTS", 2)


def skip_real(k0: int, k1: int, k2: int, p0: int, p1: int, p2: int) -> bool:
    """
    pre: all(0 <= k < len(INSERTS) for k in [k0, k1, k2]) and all(0 <= p <= 4 for p in [p0, p1, p2])
    pre: all(k == 0 for k in [k0, k1, k2][NSLOTS:]) and all(p == 0 for p in [p0, p1, p2][NSLOTS:])
    pre: K0 < 0 or k0 == K0
    post: _
    """
    be = BPMEvents(events=[BPMEvent(tick=0, timestamp=timedelta(0), bpm=120.0)], resolution=192)
    lines = list(BASE_SECTION)
    n_ins = 0
    for k, p in sorted(zip([k0, k1, k2][:NSLOTS], [p0, p1, p2][:NSLOTS]), key=lambda kp: -kp[1]):
        ins = H.pick(INSERTS, k)
        if ins is not None:
            lines.insert(p, ins)
            n_ins += 1
    log0, log1 = H.CountingLogger(), H.CountingLogger()
    with H.patched((T, "logger", log0)):
        ref = InstrumentTrack.from_chart_lines(Instrument.GUITAR, Difficulty.EXPERT, list(BASE_SECTION), be)
    with H.patched((T, "logger", log1)):
        got = InstrumentTrack.from_chart_lines(Instrument.GUITAR, Difficulty.EXPERT, lines, be)
    return done(got == ref and len(log0.warnings) == 0 and len(log1.warnings) == n_ins)


# ---------------------------------------------------------------------------------------------
# track-event words of unusual shapes through the real recogniser (round 7)
# ---------------------------------------------------------------------------------------------
E_WORDS = ["", '"', '""', '"a', 'a"', "0", "007", 'a"b', "é", "-1", "[x]", "=", "E", "　x"]


def e_word_forms(k: int, pad: bool) -> bool:
    """
    pre: 0 <= k < len(E_WORDS)
    post: _
    """
    # '<tick> = E <word>' with words of unusual shapes (empty, quotes only, digits only, brackets ...):
    # decoded verbatim as a string, through the line decoder and through the whole track parser
    import chartparse.instrument as I_
    from chartparse.sync import BPMEvent, BPMEvents
    from datetime import timedelta as _td
    w = H.pick(E_WORDS, k)
    line = ("   " if pad else "") + "288 = E " + w
    with H.untraced():
        d = I_.TrackEvent.ParsedData.from_chart_line(line)
        ok = d.tick == 288 and isinstance(d.value, str) and d.value == w
        be = BPMEvents(events=[BPMEvent(tick=0, timestamp=_td(0), bpm=120.0)], resolution=192)
        tr = I_.InstrumentTrack.from_chart_lines(I_.Instrument.GUITAR, I_.Difficulty.EXPERT, iter(["  0 = N 0 0", line, "  300 = N 1 0"]), be)
        ok = ok and len(tr.track_events) == 1 and tr.track_events[0].value == w and len(tr.note_events) == 2
        ok = ok and isinstance(str(tr.track_events[0]), str) and isinstance(repr(tr.track_events[0]), str)
    return done(ok)
