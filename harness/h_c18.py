"""CrossHair harnesses for C18: only documented errors escape; everything renders.

CrossHair reports any exception that escapes a harness, so every harness below is an
exception-escape analysis of the real code it drives.  Documented errors are caught explicitly.
"""
from __future__ import annotations

import os

import vf.h as H
import vf.tok as K
from vf.h import AbsTime, Clock, done

import chartparse.globalevents as G
import chartparse.instrument as I
import chartparse.sync as S
import chartparse.tick
import chartparse.track as T
from chartparse.exceptions import MissingRequiredField, RegexNotMatchError
from chartparse.instrument import Difficulty, HOPOState, Instrument, InstrumentTrack, Note, NoteEvent, StarPowerData
from chartparse.sync import BPMEvent, BPMEvents
from harness.h_instrument import _triplet_summary
from harness.h_integrated import clock, env

DOCUMENTED = (ValueError, RegexNotMatchError, MissingRequiredField)
IDX = [int(x) for x in os.environ.get("VF_IDX", "0,5").split(",")]
BOUND = 10 ** 8


def _bounded(xs):
    for x in xs:
        if not (0 <= x < BOUND):
            return False
    return True


NSP = H.part("VF_NSP", 1)


def instrument_any(t0: int, t1: int, t2: int, u0: int, u1: int, u2: int, s0: int, l0: int, s1: int, l1: int,
                   e0: int, tb: int, R: int) -> bool:
    """
    pre: _bounded([t0, t1, t2, u0, u1, u2, s0, l0, s1, l1, e0, tb])
    pre: tb > 0 and 0 <= R < BOUND
    pre: NSP >= 2 or (s1 == 0 and l1 == 0)
    post: _
    """
    # arbitrary (unsorted, duplicated, flag-only, forced-first...) instrument section
    n = len(IDX)
    ticks, sus = [t0, t1, t2][:n], [u0, u1, u2][:n]
    lines = [K.N(ticks[k], IDX[k], sus[k]) for k in range(n)] + [K.S(s0, l0), K.S(s1, l1)][:NSP] + [K.E(e0, "x"), K.GARBAGE()]
    try:
        evs = [BPMEvent(tick=0, timestamp=AbsTime(0), bpm=120.0, _proximal_bpm_event_index=0),
               BPMEvent(tick=tb, timestamp=AbsTime(5 * tb), bpm=60.5, _proximal_bpm_event_index=1)]
        be = BPMEvents(events=evs, resolution=R)
    except ValueError:
        return done(R <= 0)
    with env(clock()):
        try:
            tr = InstrumentTrack.from_chart_lines(Instrument.GUITAR, Difficulty.EASY, lines, be)
        except DOCUMENTED:
            return done(True)
        # derived attributes of whatever was built are computable (rendering: render_* harnesses)
        for e in tr.note_events:
            e.end_tick, e.longest_sustain
        tr.last_note_end_timestamp, tr.header_tag
    return done(True)


RAWS = ["120000", "0", "1"]
NB = H.part("VF_NB", 2)
LOS = [int(x) for x in os.environ.get("VF_LOS", "0,2,63").split(",")]


def sync_any(t0: int, t1: int, t2: int, r0: int, r1: int, r2: int, a: int, b: int, c: int, lo: int,
             has_lo: bool, R: int, n: int) -> bool:
    """
    pre: _bounded([t0, t1, t2, a, b, c]) and 0 <= R < BOUND
    pre: all(0 <= r < len(RAWS) for r in [r0, r1, r2])
    pre: lo in LOS and n == NB
    post: _
    """
    blines = [K.B(t, RAWS[r]) for t, r in [(t0, r0), (t1, r1), (t2, r2)]][:n]
    lines = blines + [K.TS(a, b, lo if has_lo else None), K.A(c, a), K.GARBAGE()]
    c_ = Clock("linear", mult={120.0: 5, 0.0: 1, 0.001: 99})
    with env(c_):
        try:
            st = S.SyncTrack.from_chart_lines(R, lines)
        except DOCUMENTED:
            return done(True)
        len(st.bpm_events), st.bpm_events.resolution
    return done(True)


def global_any(t0: int, t1: int, t2: int, k0: int, k1: int, k2: int, tb: int) -> bool:
    """
    pre: _bounded([t0, t1, t2, tb]) and tb > 0
    pre: all(0 <= k <= 3 for k in [k0, k1, k2])
    post: _
    """
    kinds = ["LYR", "SEC", "TXT", "?"]
    lines = [K.GE(kinds[k], t, 'va"lue') if k < 3 else K.GARBAGE() for t, k in [(t0, k0), (t1, k1), (t2, k2)]]
    evs = [BPMEvent(tick=0, timestamp=AbsTime(0), bpm=120.0, _proximal_bpm_event_index=0),
           BPMEvent(tick=tb, timestamp=AbsTime(5 * tb), bpm=60.5, _proximal_bpm_event_index=1)]
    be = BPMEvents(events=evs, resolution=192)
    with env(clock()):
        try:
            g = G.GlobalEventsTrack.from_chart_lines(lines, be)
        except DOCUMENTED:
            return done(True)
        len(g.text_events) + len(g.section_events) + len(g.lyric_events)
    return done(True)


def render_note_event(shape: int, hs: int, sp: bool, ni: int, us: int, us2: int) -> bool:
    """
    pre: 0 <= shape <= 3 and 0 <= hs <= 2 and 0 <= ni < 32
    pre: 0 <= us < 10**13 and 0 <= us2 < 10**13
    post: _
    """
    from datetime import timedelta
    sustain = [0, 100, (100, None, None, None, 0), (None, 5, 7, None, None)][shape]
    hopo = [HOPOState.STRUM, HOPOState.HOPO, HOPOState.TAP][hs]
    ev = NoteEvent(tick=96, timestamp=AbsTime(us), end_timestamp=AbsTime(us2), note=H.canonical_notes()[ni],
                   hopo_state=hopo, sustain=sustain,
                   star_power_data=StarPowerData(star_power_event_index=2) if sp else None)
    s, r = str(ev), repr(ev)
    return done(isinstance(s, str) and isinstance(r, str) and len(s) > 0)


# ---------------------------------------------------------------------------------------------
# C15 from the lines: SyncTrack.from_chart_lines returns only for trustworthy tempo data
# ---------------------------------------------------------------------------------------------


def sync_corrupt(t0: int, t1: int, t2: int, z0: bool, z1: bool, z2: bool, R: int, ts_tick: int, has_ts: bool) -> bool:
    """
    pre: t0 >= 0 and t1 >= 0 and t2 >= 0 and ts_tick >= 0
    post: _
    """
    n = NB
    ticks, zero = [t0, t1, t2][:n], [z0, z1, z2][:n]
    lines = [K.B(ticks[i], "0" if zero[i] else "120000") for i in range(n)]
    if has_ts:
        lines.insert(0, K.TS(ts_tick, 4))
    lines.append(K.GARBAGE())
    c_ = Clock("linear", mult={120.0: 5, 0.0: 1})
    good = n >= 1 and R > 0 and ticks[0] == 0 if n >= 1 else False
    for i in range(1, n):
        good = good and ticks[i - 1] < ticks[i]
    for i in range(n - 1):
        good = good and not zero[i]
    good = good and has_ts and ts_tick == 0
    if good and n >= 1:
        good = not zero[0] or False if n == 1 else good    # the signature at tick 0 is governed by the first tempo
    with env(c_):
        try:
            st = S.SyncTrack.from_chart_lines(R, lines)
        except ValueError:
            return done(not good)
    if not good:
        return done(False)
    ok = len(st.bpm_events) == n and st.bpm_events.resolution == R and len(st.time_signature_events) == 1
    for i in range(n):
        ok = ok and st.bpm_events[i].tick == ticks[i] and st.bpm_events[i].timestamp.us == 5 * ticks[i]
    return done(ok)


# ---------------------------------------------------------------------------------------------
# C18 obligation 5: charts of every shape render
# ---------------------------------------------------------------------------------------------
import io  # noqa: E402

from chartparse.chart import Chart  # noqa: E402

_HEAD = ["[Song]", "{", '  Name = "n"', "  Resolution = 192", "}"]
_HEAD_SLOW = ["[Song]", "{", "  Resolution = 1", "}"]
_SYNCS = [["  0 = TS 4", "  0 = B 120000"], ["  0 = TS 4", "  0 = TS 3 3", "  0 = B 120000", "  5 = B 1", "  9 = B 999999999", "  0 = A 0", "  7 = A 12345678"]]
_EVS = [[], ['  0 = E "section a"'], ['  0 = E "section a"', '  1 = E "section b"', '  2 = E "lyric x"', '  2 = E "lyric y"', '  3 = E "t"', '  4 = E "u"', "  junk"]]
_TRKS = [[], [("ExpertSingle", [])], [("ExpertSingle", ["  0 = N 7 10", "  0 = N 6 0"]),
                                      ("HardDrums", ["  0 = N 0 5", "  0 = N 1 0", "  0 = S 2 5", "  3 = N 4 0", "  3 = N 5 0", "  3 = S 2 0", "  4 = E a", "  5 = E b"])],
         # several tracks of which some have no notes at all (empty / phrases and events only)
         [("ExpertSingle", ["  0 = N 0 0"]), ("HardDrums", ["  3 = S 2 0", "  4 = E a"])],
         [("EasyKeyboard", []), ("ExpertSingle", ["  0 = N 0 0", "  9 = N 1 3"]), ("ExpertDoubleBass", ["  9 = N 1 30"]), ("MediumSingle", ["  4 = E a"])]]


def render_chart(si: int, ei: int, ti: int) -> bool:
    """
    pre: 0 <= si <= len(_SYNCS) and 0 <= ei < len(_EVS) and 0 <= ti < len(_TRKS)
    post: _
    """
    si, ei, ti = H.pick([0, 1, 2], si), H.pick([0, 1, 2], ei), H.pick(list(range(len(_TRKS))), ti)
    with H.untraced():      # concrete on every path; CrossHair's datetime model is not the interpreter's
        return done(_render_chart(si, ei, ti))


def _render_chart(si, ei, ti):
    if si == 2:
        # slowest in-bounds tempo map: resolution 1, 0.001 BPM, events at an 8-digit tick (6e12 s)
        lines = list(_HEAD_SLOW) + ["[SyncTrack]", "{", "  0 = TS 4", "  0 = B 1", "  99999990 = TS 3", "}", "[Events]", "{"] + \
            [ln.replace("  0 = E", "  99999999 = E") for ln in _EVS[ei]] + ["}"]
    else:
        lines = list(_HEAD) + ["[SyncTrack]", "{"] + _SYNCS[si] + ["}", "[Events]", "{"] + _EVS[ei] + ["}"]
    for nm, body in _TRKS[ti]:
        lines += ["[" + nm + "]", "{"] + body + ["}"]
    with H.patched((T, "logger", H.CountingLogger())):
        chart = Chart.from_file(io.StringIO("\n".join(lines)))
    out = [str(chart), repr(chart), str(chart.metadata), repr(chart.metadata), str(chart.sync_track), repr(chart.sync_track),
           str(chart.global_events_track), repr(chart.global_events_track), repr(chart.sync_track.bpm_events)]
    evs = list(chart.sync_track.bpm_events) + list(chart.sync_track.time_signature_events) + list(chart.sync_track.anchor_events)
    g = chart.global_events_track
    evs += list(g.text_events) + list(g.section_events) + list(g.lyric_events)
    for dd in chart.instrument_tracks.values():
        for t in dd.values():
            out += [str(t), repr(t)]
            evs += list(t.note_events) + list(t.star_power_events) + list(t.track_events)
    for e in evs:
        out += [str(e), repr(e)]
    return all(isinstance(x, str) and len(x) > 0 for x in out)
