"""Generated: tempo-map lookups over long tempo maps (KB events, up to 41); see harness/h_sync.py."""
from __future__ import annotations

import vf.h as H
from vf.h import AbsTime, Clock, done

from chartparse.sync import BPMEvent, BPMEvents
from harness.h_sync import AFF, BPMS, _inc, aff, governing

KB = H.part("VF_KB", 18)


def _events(ticks):
    return [BPMEvent(tick=t, timestamp=AbsTime(1000 * i), bpm=BPMS[i % 6], _proximal_bpm_event_index=i)
            for i, t in enumerate(ticks)]


def index_big(t1: int, t2: int, t3: int, t4: int, t5: int, t6: int, t7: int, t8: int, t9: int, t10: int, t11: int, t12: int, t13: int, t14: int, t15: int, t16: int, t17: int, t18: int, t19: int, t20: int, t21: int, t22: int, t23: int, t24: int, t25: int, t26: int, t27: int, t28: int, t29: int, t30: int, t31: int, t32: int, t33: int, t34: int, t35: int, t36: int, t37: int, t38: int, t39: int, t40: int, tick: int, hint: int) -> bool:
    """
    pre: _inc(KB, [t1, t2, t3, t4, t5, t6, t7, t8, t9, t10, t11, t12, t13, t14, t15, t16, t17, t18, t19, t20, t21, t22, t23, t24, t25, t26, t27, t28, t29, t30, t31, t32, t33, t34, t35, t36, t37, t38, t39, t40])
    pre: tick >= 0 and 0 <= hint <= KB
    post: _
    """
    ticks = ([0] + [t1, t2, t3, t4, t5, t6, t7, t8, t9, t10, t11, t12, t13, t14, t15, t16, t17, t18, t19, t20, t21, t22, t23, t24, t25, t26, t27, t28, t29, t30, t31, t32, t33, t34, t35, t36, t37, t38, t39, t40])[:KB]
    be = BPMEvents(events=_events(ticks), resolution=192)
    g = governing(ticks, tick)
    try:
        got = be._index_of_proximal_event(tick, start_iteration_index=hint)
    except ValueError:
        return done(hint > g)
    return done(hint <= g and got == g)


def timestamp_big(t1: int, t2: int, t3: int, t4: int, t5: int, t6: int, t7: int, t8: int, t9: int, t10: int, t11: int, t12: int, t13: int, t14: int, t15: int, t16: int, t17: int, t18: int, t19: int, t20: int, t21: int, t22: int, t23: int, t24: int, t25: int, t26: int, t27: int, t28: int, t29: int, t30: int, t31: int, t32: int, t33: int, t34: int, t35: int, t36: int, t37: int, t38: int, t39: int, t40: int, tick: int, hint: int) -> bool:
    """
    pre: _inc(KB, [t1, t2, t3, t4, t5, t6, t7, t8, t9, t10, t11, t12, t13, t14, t15, t16, t17, t18, t19, t20, t21, t22, t23, t24, t25, t26, t27, t28, t29, t30, t31, t32, t33, t34, t35, t36, t37, t38, t39, t40])
    pre: tick >= 0 and 0 <= hint <= KB
    post: _
    """
    ticks = ([0] + [t1, t2, t3, t4, t5, t6, t7, t8, t9, t10, t11, t12, t13, t14, t15, t16, t17, t18, t19, t20, t21, t22, t23, t24, t25, t26, t27, t28, t29, t30, t31, t32, t33, t34, t35, t36, t37, t38, t39, t40])[:KB]
    be = BPMEvents(events=_events(ticks), resolution=192)
    g = governing(ticks, tick)
    with H.abstract_time(Clock("affine", mult=AFF)):
        try:
            ts, idx = be.timestamp_at_tick(tick, start_iteration_index=hint)
        except ValueError:
            return done(hint > g)
    return done(hint <= g and idx == g and ts.us == 1000 * g + aff(tick - ticks[g], BPMS[g % 6], 192))
