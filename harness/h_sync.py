"""CrossHair harnesses on chartparse.sync (tempo map lookups and builders)."""
from __future__ import annotations

import vf.h as H
from vf.h import AbsTime, Clock, TaggedSeconds, done

import chartparse.sync as S
import chartparse.tick
import chartparse.time
from chartparse.sync import BPMEvent, BPMEvents

K = H.part("VF_K", 4)  # number of tempo events (t0 = 0 fixed, t1..t5 symbolic)

# concrete tempos: distinct, valid 3-decimal floats (the harnesses never do float arithmetic on
# them: the kernel is stubbed, S4)
BPMS = [120.0, 60.5, 200.25, 87.125, 333.0, 45.0]


def mk_events(ticks, stamps):
    evs = []
    for i, (t, s) in enumerate(zip(ticks, stamps)):
        evs.append(BPMEvent(tick=t, timestamp=s, bpm=BPMS[i], _proximal_bpm_event_index=i))
    return evs


def _inc(K, ts):
    prev = 0
    for i in range(K - 1):
        if not (prev < ts[i]):
            return False
        prev = ts[i]
    for i in range(K - 1, len(ts)):
        if ts[i] != 0:
            return False
    return True


def governing(ticks, tick):
    g = 0
    for i in range(len(ticks)):
        if ticks[i] <= tick:
            g = i
    return g


# ---------------------------------------------------------------------------------------------
# C11 obligation 1: _index_of_proximal_event
# ---------------------------------------------------------------------------------------------


def index_of_proximal(t1: int, t2: int, t3: int, t4: int, t5: int, tick: int, hint: int) -> bool:
    """
    pre: _inc(K, [t1, t2, t3, t4, t5])
    pre: tick >= 0
    pre: 0 <= hint <= K
    post: _
    """
    ticks = [0, t1, t2, t3, t4, t5][:K]
    be = BPMEvents(events=mk_events(ticks, [AbsTime(0)] * K), resolution=192)
    g = governing(ticks, tick)
    try:
        got = be._index_of_proximal_event(tick, start_iteration_index=hint)
    except ValueError:
        return done(hint > g)
    return done(hint <= g and got == g)


# ---------------------------------------------------------------------------------------------
# C01 obligation 3 / C11 obligation 2: timestamp_at_tick dataflow and hint invisibility
# ---------------------------------------------------------------------------------------------


def timestamp_at_tick_dataflow(
    t1: int, t2: int, t3: int, t4: int, t5: int,
    s0: int, s1: int, s2: int, s3: int, s4: int, s5: int,
    tick: int, hint: int, R: int, u: int,
) -> bool:
    """
    pre: _inc(K, [t1, t2, t3, t4, t5])
    pre: tick >= 0
    pre: 0 <= hint <= K
    pre: R >= 1
    post: _
    """
    ticks = [0, t1, t2, t3, t4, t5][:K]
    stamps = [AbsTime(x) for x in [s0, s1, s2, s3, s4, s5][:K]]
    be = BPMEvents(events=mk_events(ticks, stamps), resolution=R)
    g = governing(ticks, tick)
    clock = Clock("recorder", pool=[u])
    with H.abstract_time(clock):
        try:
            ts, idx = be.timestamp_at_tick(tick, start_iteration_index=hint)
        except ValueError:
            return done(hint > g)
    ok = hint <= g and idx == g
    # exactly one kernel call, with (distance from the governing event, its tempo, the resolution)
    ok = ok and len(clock.log) == 1
    (d, b, r, us) = clock.log[0]
    ok = ok and d == tick - ticks[g] and b is BPMS[g] and r == R
    # result is the governing event's stamp plus the converted kernel result, nothing else
    ok = ok and isinstance(ts, AbsTime) and ts.us == stamps[g].us + u
    return done(ok)


def no_optimize_return(t1: int, t2: int, t3: int, t4: int, t5: int, tick: int, u: int) -> bool:
    """
    pre: _inc(K, [t1, t2, t3, t4, t5])
    pre: tick >= 0
    post: _
    """
    ticks = [0, t1, t2, t3, t4, t5][:K]
    stamps = [AbsTime(1000 * i) for i in range(K)]
    be = BPMEvents(events=mk_events(ticks, stamps), resolution=192)
    g = governing(ticks, tick)
    clock = Clock("recorder", pool=[u])
    with H.abstract_time(clock):
        ts = be.timestamp_at_tick_no_optimize_return(tick)
    (d, b, r, us) = clock.log[0]
    return done(ts.us == stamps[g].us + u and d == tick - ticks[g] and b is BPMS[g])


def hint_invisible(t1: int, t2: int, t3: int, t4: int, t5: int, tick: int, hint: int,
                   ua: int, ub: int) -> bool:
    """
    pre: _inc(K, [t1, t2, t3, t4, t5])
    pre: tick >= 0
    pre: 0 <= hint <= K
    post: _
    """
    ticks = [0, t1, t2, t3, t4, t5][:K]
    stamps = [AbsTime(1000 * i) for i in range(K)]
    be = BPMEvents(events=mk_events(ticks, stamps), resolution=192)
    g = governing(ticks, tick)
    clock = Clock("monotone", pool=[ua, ub])
    with H.abstract_time(clock):
        ts0, idx0 = be.timestamp_at_tick(tick)
        try:
            ts, idx = be.timestamp_at_tick(tick, start_iteration_index=hint)
        except ValueError:
            return done(hint > g)
    if not clock.assume_ok:
        return True  # outside the clock axioms (not a reachable pair of kernel results)
    return done(hint <= g and idx == idx0 == g and ts == ts0)
