"""CrossHair harnesses on chartparse.sync (tempo map lookups and builders)."""
from __future__ import annotations

import vf.h as H
from vf.h import AbsTime, Clock, TaggedSeconds, done

import chartparse.sync as S
import chartparse.tick
import chartparse.time
from chartparse.sync import BPMEvent, BPMEvents

K = H.part("VF_K", 4)  # number of tempo events (t0 = 0 fixed, t1..t5 symbolic)

# concrete tempos: distinct, valid 3-decimal floats (the harnesses never do float arithmetic on
# them: the kernel is stubbed, S4)
BPMS = [120.0, 60.5, 200.25, 87.125, 333.0, 45.0]
AFF = {120.0: 5, 60.5: 11, 200.25: 3, 87.125: 7, 333.0: 2, 45.0: 13}   # affine clock multipliers


def aff(d, bpm, R):
    """The affine stand-in kernel (vf.h.Clock policy 'affine'), written again for the oracle."""
    return d * AFF[bpm] + (R if d > 0 else 0)


def mk_events(ticks, stamps):
    evs = []
    for i, (t, s) in enumerate(zip(ticks, stamps)):
        evs.append(BPMEvent(tick=t, timestamp=s, bpm=BPMS[i], _proximal_bpm_event_index=i))
    return evs


def _inc(K, ts):
    prev = 0
    for i in range(K - 1):
        if not (prev < ts[i]):
            return False
        prev = ts[i]
    for i in range(K - 1, len(ts)):
        if ts[i] != 0:
            return False
    return True


def governing(ticks, tick):
    g = 0
    for i in range(len(ticks)):
        if ticks[i] <= tick:
            g = i
    return g


# ---------------------------------------------------------------------------------------------
# C11 obligation 1: _index_of_proximal_event
# ---------------------------------------------------------------------------------------------


def index_of_proximal(t1: int, t2: int, t3: int, t4: int, t5: int, tick: int, hint: int) -> bool:
    """
    pre: _inc(K, [t1, t2, t3, t4, t5])
    pre: tick >= 0
    pre: 0 <= hint <= K
    post: _
    """
    ticks = [0, t1, t2, t3, t4, t5][:K]
    be = BPMEvents(events=mk_events(ticks, [AbsTime(0)] * K), resolution=192)
    g = governing(ticks, tick)
    try:
        got = be._index_of_proximal_event(tick, start_iteration_index=hint)
    except ValueError:
        return done(hint > g)
    return done(hint <= g and got == g)


# ---------------------------------------------------------------------------------------------
# C01 obligation 3 / C11 obligation 2: timestamp_at_tick dataflow and hint invisibility
# ---------------------------------------------------------------------------------------------


def timestamp_at_tick_dataflow(
    t1: int, t2: int, t3: int, t4: int, t5: int,
    s0: int, s1: int, s2: int, s3: int, s4: int, s5: int,
    tick: int, hint: int, R: int,
) -> bool:
    """
    pre: _inc(K, [t1, t2, t3, t4, t5])
    pre: tick >= 0
    pre: 0 <= hint <= K
    pre: R >= 1
    post: _
    """
    ticks = [0, t1, t2, t3, t4, t5][:K]
    stamps = [AbsTime(x) for x in [s0, s1, s2, s3, s4, s5][:K]]
    be = BPMEvents(events=mk_events(ticks, stamps), resolution=R)
    g = governing(ticks, tick)
    clock = Clock("affine", mult=AFF)
    with H.abstract_time(clock):
        try:
            ts, idx = be.timestamp_at_tick(tick, start_iteration_index=hint)
        except ValueError:
            return done(hint > g)
    ok = hint <= g and idx == g
    # the governing event's stamp plus the kernel's value for (distance from it, its tempo, the
    # resolution) - however the implementation gets there
    ok = ok and isinstance(ts, AbsTime) and ts.us == stamps[g].us + aff(tick - ticks[g], BPMS[g], R)
    return done(ok)


def no_optimize_return(t1: int, t2: int, t3: int, t4: int, t5: int, tick: int, R: int) -> bool:
    """
    pre: _inc(K, [t1, t2, t3, t4, t5])
    pre: tick >= 0 and R >= 1
    post: _
    """
    ticks = [0, t1, t2, t3, t4, t5][:K]
    stamps = [AbsTime(1000 * i) for i in range(K)]
    be = BPMEvents(events=mk_events(ticks, stamps), resolution=R)
    g = governing(ticks, tick)
    clock = Clock("affine", mult=AFF)
    with H.abstract_time(clock):
        ts = be.timestamp_at_tick_no_optimize_return(tick)
    return done(ts.us == stamps[g].us + aff(tick - ticks[g], BPMS[g], R))


def hint_invisible(t1: int, t2: int, t3: int, t4: int, t5: int, tick: int, hint: int,
                   ua: int, ub: int) -> bool:
    """
    pre: _inc(K, [t1, t2, t3, t4, t5])
    pre: tick >= 0
    pre: 0 <= hint <= K
    post: _
    """
    ticks = [0, t1, t2, t3, t4, t5][:K]
    stamps = [AbsTime(1000 * i) for i in range(K)]
    be = BPMEvents(events=mk_events(ticks, stamps), resolution=192)
    g = governing(ticks, tick)
    clock = Clock("monotone", pool=[ua, ub])
    with H.abstract_time(clock):
        ts0, idx0 = be.timestamp_at_tick(tick)
        try:
            ts, idx = be.timestamp_at_tick(tick, start_iteration_index=hint)
        except ValueError:
            return done(hint > g)
    if not clock.assume_ok:
        return True  # outside the clock axioms (not a reachable pair of kernel results)
    return done(hint <= g and idx == idx0 == g and ts == ts0)


# ---------------------------------------------------------------------------------------------
# C01 obligation 2 / C15 obligation 1: BPMEvent.from_parsed_data and the BPMEvents validator
# ---------------------------------------------------------------------------------------------
RAWS = ["120000", "0", "90500", "1"]      # tempo tokens used by the builders ("0" = zero tempo)


def bpm_event_dataflow(prev_tick: int, tick: int, R: int, prev_us: int, prev_idx: int,
                       has_prev: bool, ri: int) -> bool:
    """
    pre: 0 <= ri < len(RAWS)
    pre: prev_tick >= 0 and tick >= 0
    post: _
    """
    data = BPMEvent.ParsedData(tick=tick, raw_bpm=RAWS[ri])
    prev = None
    if has_prev:
        prev = BPMEvent(tick=prev_tick, timestamp=AbsTime(prev_us), bpm=BPMS[1],
                        _proximal_bpm_event_index=prev_idx)
    clock = Clock("affine", mult=AFF)
    with H.abstract_time(clock):
        try:
            ev = BPMEvent.from_parsed_data(data, prev, R)
        except ValueError:
            # strictly increasing ticks are required; the kernel guards reject R <= 0
            return done(has_prev and (tick <= prev_tick or R <= 0))
    ok = ev.tick == tick and ev.bpm == int(RAWS[ri]) / 1000
    if not has_prev:
        return done(ok and ev.timestamp.us == 0 and ev._proximal_bpm_event_index == 0)
    ok = ok and tick > prev_tick
    if not ok:
        return done(False)
    # time of the new tempo event: previous stamp + kernel(distance, *previous* tempo, resolution)
    ok = ok and (R <= 0 or ev.timestamp.us == prev_us + aff(tick - prev_tick, BPMS[1], R))
    ok = ok and ev._proximal_bpm_event_index == prev_idx + 1
    return done(ok)


NB = H.part("VF_NB", 3)


def bpm_builder_validation(n: int, t0: int, t1: int, t2: int, t3: int, R: int,
                           z0: bool, z1: bool, z2: bool, z3: bool) -> bool:
    """
    pre: 0 <= n <= NB
    post: _
    """
    # arbitrary tempo data (any order, duplicates, zero tempos, any resolution) through the real
    # builder: returns only for a trustworthy map, otherwise ValueError
    import chartparse.track as T
    ticks = [t0, t1, t2, t3][:n]
    zero = [z0, z1, z2, z3][:n]
    datas = [BPMEvent.ParsedData(tick=ticks[i], raw_bpm=("0" if zero[i] else "120000")) for i in range(n)]
    clock = Clock("linear", mult={120.0: 5, 0.0: 1})
    with H.abstract_time(clock):
        try:
            be = T.build_events_from_data(BPMEvent, datas, R)
        except ValueError:
            good = n >= 1 and R > 0 and ticks[0] == 0
            for i in range(1, n):
                good = good and ticks[i - 1] < ticks[i]
            for i in range(n - 1):
                good = good and not zero[i]       # a zero tempo followed by another event has no duration
            return done(not good)
    ok = n >= 1 and R > 0 and ticks[0] == 0 and len(be) == n and be.resolution == R
    for i in range(1, n):
        ok = ok and ticks[i - 1] < ticks[i]
    for i in range(n - 1):
        ok = ok and not zero[i]
    if not ok:
        return done(False)
    for i in range(n):
        ok = ok and be[i].tick == ticks[i] and be[i]._proximal_bpm_event_index == i
        ok = ok and be[i].timestamp.us == 5 * ticks[i]
    return done(ok)


def zero_tempo_queries(t1: int, tick: int, hint: int, which: int) -> bool:
    """
    pre: 0 < t1 and tick >= -3 and 0 <= hint <= 1 and 0 <= which <= 1
    post: _
    """
    # a tempo map whose `which`-th tempo is zero; queries governed by it (and negative ticks) raise
    bp = [BPMS[0], BPMS[1]]
    bp[which] = 0.0
    evs = [BPMEvent(tick=0, timestamp=AbsTime(0), bpm=bp[0], _proximal_bpm_event_index=0),
           BPMEvent(tick=t1, timestamp=AbsTime(7 * t1), bpm=bp[1], _proximal_bpm_event_index=1)]
    be = BPMEvents(events=evs, resolution=192)
    clock = Clock("linear", mult={BPMS[0]: 7, BPMS[1]: 3, 0.0: 1})
    g = 1 if tick >= t1 else 0
    with H.abstract_time(clock):
        try:
            ts, idx = be.timestamp_at_tick(tick, start_iteration_index=hint)
        except ValueError:
            return done(tick < 0 or g == which or hint > g)
    return done(tick >= 0 and g != which and hint <= g and idx == g)


def kernel_guards(d: int, R: int, bi: int) -> bool:
    """
    pre: 0 <= bi <= 3
    post: _
    """
    b = H.pick([0.0, -1.5, 120.0, 0.001], bi)
    try:
        H._SEC_GUARDS(d, b, R)
    except ValueError:
        return done(d < 0 or b <= 0 or R <= 0)
    return done(not (d < 0 or b <= 0 or R <= 0))


def sync_track_validation(n: int, t0: int, t1: int) -> bool:
    """
    pre: 0 <= n <= 2
    post: _
    """
    ticks = [t0, t1][:n]
    tss = [S.TimeSignatureEvent(tick=t, timestamp=AbsTime(0), upper_numeral=4, lower_numeral=4) for t in ticks]
    be = BPMEvents(events=mk_events([0], [AbsTime(0)]), resolution=192)
    try:
        S.SyncTrack(time_signature_events=tss, bpm_events=be, anchor_events=[])
    except ValueError:
        return done(n == 0 or ticks[0] != 0)
    return done(n >= 1 and ticks[0] == 0)


# ---------------------------------------------------------------------------------------------
# C08 obligations 3 and 4
# ---------------------------------------------------------------------------------------------
from harness.h_instrument import RecTempo  # noqa: E402

LMAX = H.part("VF_LMAX", 16)


def time_signature_value(tick: int, upper: int, lower: int, has_lower: bool) -> bool:
    """
    pre: tick >= 0 and upper >= 0 and 0 <= lower <= LMAX
    post: _
    """
    d = S.TimeSignatureEvent.ParsedData(tick=tick, upper=upper, lower=lower if has_lower else None)
    ev = S.TimeSignatureEvent.from_parsed_data(d, None, RecTempo(192, [(0, 0)]))
    want = 4
    if has_lower:
        want = 1
        for _ in range(LMAX):
            if _ < lower:
                want = want * 2
    return done(ev.upper_numeral == upper and ev.lower_numeral == want and ev.tick == tick)


def anchor_value(tick: int, us: int) -> bool:
    """
    pre: tick >= 0 and 0 <= us < 10**13
    post: _
    """
    ev = S.AnchorEvent.from_parsed_data(S.AnchorEvent.ParsedData(tick=tick, microseconds=us))
    ts = ev.timestamp
    return done(ev.tick == tick and (ts.days * 86400 + ts.seconds) * 10**6 + ts.microseconds == us)


# ---------------------------------------------------------------------------------------------
# C12: monotonicity over tempo maps built by the real builder, axiomatised monotone clock
# ---------------------------------------------------------------------------------------------
RAW_BPMS = ["120000", "60500", "200250", "87125", "333000", "45000"]


def monotone_pair(t1: int, t2: int, t3: int, t4: int, t5: int, a: int, b: int,
                  p0: int, p1: int, p2: int, p3: int, p4: int, p5: int, p6: int) -> bool:
    """
    pre: _inc(K, [t1, t2, t3, t4, t5])
    pre: 0 <= a <= b
    post: _
    """
    import chartparse.track as T
    ticks = [0, t1, t2, t3, t4, t5][:K]
    datas = [BPMEvent.ParsedData(tick=ticks[i], raw_bpm=RAW_BPMS[i]) for i in range(K)]
    clock = Clock("monotone", pool=[p0, p1, p2, p3, p4, p5, p6][:K + 1])
    with H.abstract_time(clock):
        be = T.build_events_from_data(BPMEvent, datas, 192)
        ta, ia = be.timestamp_at_tick(a)
        tb, ib = be.timestamp_at_tick(b)
    if not clock.assume_ok:
        return True     # pool values outside the clock axioms (K2): not a real clock
    ok = ta <= tb and ia <= ib and ta.us >= 0
    if a == b:
        ok = ok and ta == tb and ia == ib
    if a == 0:
        ok = ok and ta.us == 0
    for i in range(K):
        ok = ok and be[i].tick == ticks[i]
        if i > 0:
            ok = ok and be[i - 1].timestamp <= be[i].timestamp
    return done(ok)
