"""C17 (history fragment) and the observation helpers shared with C19.

This module parses NOTHING when it is imported: the fresh-interpreter reference parses (child
processes) import only this module, so their parse really is the first parse of the interpreter.
"""
from __future__ import annotations

import dataclasses
import io
import json as _json
import os as _os
import subprocess as _subprocess
import sys as _sys

import vf.h as H
from vf.h import done

from chartparse.chart import Chart
from chartparse.instrument import Difficulty, Instrument

C19_TEXT = """[Song]
{
  Name = "t"
  Resolution = 192
}
[SyncTrack]
{
  0 = TS 4
  0 = B 125000
  768 = B 62500
  768 = A 1600000
}
[Events]
{
  0 = E "section intro"
  96 = E "lyric la"
  192 = E "crowd"
}
[ExpertSingle]
{
  0 = N 0 0
  96 = N 1 300
  96 = N 2 100
  96 = S 2 200
  200 = E solo
  800 = N 7 0
  800 = N 5 0
}
[HardDrums]
{
  384 = N 3 0
  200 = N 2 0
}
"""


def _norm(v):
    # timedelta values (the interpreter's or CrossHair's stand-in class) as exact microseconds
    if hasattr(v, "days") and hasattr(v, "microseconds") and hasattr(v, "seconds"):
        return ("us", int((v.days * 86400 + v.seconds) * 10**6 + v.microseconds))
    return v


def _ev(e):
    d = [(f.name, _norm(getattr(e, f.name))) for f in dataclasses.fields(e) if not f.name.startswith("_")]
    return (type(e).__name__, tuple(d))


def observe(chart):
    md = tuple((f.name, getattr(chart.metadata, f.name)) for f in dataclasses.fields(chart.metadata))
    st = chart.sync_track
    sync = (tuple(_ev(e) for e in st.time_signature_events), tuple(_ev(e) for e in st.bpm_events.events),
            tuple(_ev(e) for e in st.anchor_events), st.bpm_events.resolution, len(st.bpm_events))
    g = chart.global_events_track
    glob = (tuple(_ev(e) for e in g.text_events), tuple(_ev(e) for e in g.section_events),
            tuple(_ev(e) for e in g.lyric_events))
    tracks = []
    for ins in list(chart.instrument_tracks.keys()):
        inner = []
        for dif in list(chart.instrument_tracks[ins].keys()):
            t = chart.instrument_tracks[ins][dif]
            inner.append((dif.name, t.instrument.name, t.difficulty.name, tuple(_ev(e) for e in t.note_events),
                          tuple(_ev(e) for e in t.star_power_events), tuple(_ev(e) for e in t.track_events)))
        tracks.append((ins.name, tuple(inner)))
    return (md, sync, glob, tuple(tracks), len(chart.instrument_tracks))


# ---------------------------------------------------------------------------------------------
# C17 (history fragment): a parse is unaffected by what was parsed before in this process; the
# reference for every text is its parse as the FIRST parse of a fresh interpreter
# ---------------------------------------------------------------------------------------------

_T_A = C19_TEXT
_T_B = C19_TEXT.replace("0 = B 125000", "0 = B 120000").replace("768 = B 62500", "768 = B 60000")       # same ticks, other tempos
_T_C = C19_TEXT.replace("Resolution = 192", "Resolution = 480")                                            # same lines, other resolution
_T_D = C19_TEXT.replace("[HardDrums]", "[HardDrumsX]").replace("  200 = E solo", "  200 = E solo\n  junk line\n  96 = N 9 0")
_T_E = C19_TEXT.replace("[Events]", "[Eventz]")                                                            # missing required section
_T_F = C19_TEXT.replace("  0 = N 0 0\n", "  900 = N 0 0\n  0 = N 5 0\n")                                   # unsorted + forced first
_T_G = C19_TEXT.replace("96 = S 2 200", "0 = S 2 97").replace("  96 = N 2 100\n", "  96 = N 2 100\n  96 = N 6 0\n")
_T_H = C19_TEXT.replace('  192 = E "crowd"', "\n".join('  %d = E "text %d"' % (200 + k, k) for k in range(6)))   # many text events
_T_I = C19_TEXT.replace('  Name = "t"', '  Offset = 7\n  Player2 = guitar')                                # [Song] fails after Offset was read
_T_J = C19_TEXT.replace('  Name = "t"\n', "").replace("  96 = S 2 200", "  96 = S 2 200\n  768 = E solo").replace('  192 = E "crowd"', "  768 = E solo")
_T_K = C19_TEXT + "".join("[%s]\n{\n  %d = N %d 0\n}\n" % (nm, 100 * k, k % 5) for k, nm in enumerate(
    ["EasySingle", "MediumDoubleBass", "HardKeyboard", "ExpertGHLGuitar", "Unknown1", "EasyDrums", "Unknown2", "MediumSingle"]))   # many tracks, two unknown sections
HIST_TEXTS = [_T_A, _T_B, _T_C, _T_D, _T_E, _T_F, _T_G, _T_H, _T_I, _T_J, _T_K]
HIST_SELECT = [None, None, None, None, None, None, [(Instrument.GUITAR, Difficulty.EXPERT)], None, None, None, None]


class _WarnLog:
    def __init__(self):
        self.msgs = []

    def warning(self, msg, *a, **k):
        self.msgs.append(str(msg))

    def __getattr__(self, name):
        return lambda *a, **k: None


def _hist_observe(i):
    # run natively: the texts are concrete on every path, and CrossHair substitutes its own
    # (float-based) timedelta model under tracing, which is not what a fresh interpreter computes
    import chartparse.chart as _C
    import chartparse.track as _T
    with H.untraced():
        log = _WarnLog()
        with H.patched((_C, "logger", log), (_T, "logger", log)):
            try:
                ch = Chart.from_file(io.StringIO(HIST_TEXTS[i]), want_tracks=HIST_SELECT[i])
            except Exception as e:  # noqa: BLE001
                return "raised " + type(e).__name__
        # what a user can observe: every datum, the rendering, the reports in the order given, and the
        # answers of the read-only queries (rate over the whole track, a tick-to-time query)
        answers = []
        for ins in list(ch.instrument_tracks.keys()):
            for dif in list(ch.instrument_tracks[ins].keys()):
                try:
                    answers.append((ins.name, dif.name, ch.notes_per_second(ins, dif)))
                except ValueError:
                    answers.append((ins.name, dif.name, "ValueError"))
        try:
            answers.append(("t(1000)", _norm(ch.sync_track.bpm_events.timestamp_at_tick_no_optimize_return(1000))))
        except ValueError:
            answers.append(("t(1000)", "ValueError"))
        return repr(observe(ch)) + " || " + str(ch) + " || " + repr(log.msgs) + " || " + repr(answers)


_HIST_PROG = '''
import json, logging, sys
logging.disable(logging.CRITICAL)
sys.path[:0] = %r
import harness.h_hist as M
out = None
for i in sys.argv[1:]:
    out = M._hist_observe(int(i))       # the whole history runs in THIS fresh interpreter; the last parse is reported
print("REF " + json.dumps(out))
'''


def _run_history(seq, hashseed=None):
    """Parse the texts `seq` one after the other in ONE fresh interpreter; observation of the last."""
    env = dict(_os.environ)
    env["VF_HIST_CHILD"] = "1"
    flags = []
    if hashseed is not None:
        if hashseed < 0:                   # negative: the interpreter runs with -O (asserts stripped) and seed -hashseed
            flags, hashseed = ["-O"], -hashseed
        env["PYTHONHASHSEED"] = str(hashseed)
    p = _subprocess.run([_sys.executable] + flags + ["-c", _HIST_PROG % ([p_ for p_ in _sys.path if p_],)] + [str(i) for i in seq],
                        env=env, capture_output=True, text=True, timeout=300)
    for ln in p.stdout.splitlines():
        if ln.startswith("REF "):
            return _json.loads(ln[4:])
    raise RuntimeError("history run failed: " + p.stderr[-300:])


def _fresh_refs():
    if H.part("VF_HIST_CHILD", 0):
        return None
    import os as _o
    env = dict(_o.environ)
    env["VF_HIST_CHILD"] = "1"
    return [_run_history([i]) for i in range(len(HIST_TEXTS))]


_HIST_REFS = _fresh_refs() if H.part("VF_HIST", 0) else None
HLEN = H.part("VF_HLEN", 1)


def history_free(x1: int, x2: int, y: int) -> bool:
    """
    pre: 0 <= x1 < len(HIST_TEXTS) and 0 <= x2 < len(HIST_TEXTS) and 0 <= y < len(HIST_TEXTS)
    pre: HLEN >= 2 or x2 == 0
    post: _
    """
    # every explored history runs in its own fresh interpreter (so explored paths cannot influence
    # each other and a replay re-runs exactly the same history); the solver chooses the history
    n = len(HIST_TEXTS)
    i1, i2, iy = H.pick(list(range(n)), x1), H.pick(list(range(n)), x2), H.pick(list(range(n)), y)
    with H.untraced():
        seq = [i1] + ([i2] if HLEN >= 2 else []) + [iy]
        return done(_run_history(seq) == _HIST_REFS[iy])


HASHSEEDS = [1, 2, 3, 7, 12345, 4242424242, -5]      # negative: also started with -O


def hash_seed_free(y: int, si: int) -> bool:
    """
    pre: 0 <= y < len(HIST_TEXTS) and 0 <= si < len(HASHSEEDS)
    post: _
    """
    # "in a fresh interpreter": the interpreter's string-hash randomisation differs from process to
    # process; the reference parses run with PYTHONHASHSEED=0 (vf.runner), these with other seeds
    n = len(HIST_TEXTS)
    iy, seed = H.pick(list(range(n)), y), H.pick(HASHSEEDS, si)
    with H.untraced():
        return done(_run_history([iy], hashseed=seed) == _HIST_REFS[iy])


# ---------------------------------------------------------------------------------------------
# long histories: many parses whose charts are dropped at once (freed objects, recycled addresses)
# ---------------------------------------------------------------------------------------------
_LONG_PROG = '''
import gc, json, logging, sys
logging.disable(logging.CRITICAL)
sys.path[:0] = %r
import harness.h_hist as M
a, b, n = int(sys.argv[1]), int(sys.argv[2]), int(sys.argv[3])
first = {}
bad = None
for k in range(n):
    i = (a, b)[k %% 2] if k %% 7 != 6 else (b, a)[k %% 2]
    out = M._hist_observe(i)              # the chart is dropped as soon as it has been observed
    if k %% 5 == 0:
        gc.collect()
    if first.setdefault(i, out) != out:
        bad = k
        break
print("REF " + json.dumps(bad))
'''
LONG_N = [30, 120, 400]


def _run_long(a, b, n):
    env = dict(_os.environ)
    env["VF_HIST_CHILD"] = "1"
    p = _subprocess.run([_sys.executable, "-c", _LONG_PROG % ([p_ for p_ in _sys.path if p_],), str(a), str(b), str(n)],
                        env=env, capture_output=True, text=True, timeout=600)
    for ln in p.stdout.splitlines():
        if ln.startswith("REF "):
            return _json.loads(ln[4:])
    raise RuntimeError("long history run failed: " + p.stderr[-300:])


def long_history(x: int, y: int, ni: int) -> bool:
    """
    pre: 0 <= x < 4 and 0 <= y < 4 and x != y and 0 <= ni < len(LONG_N)
    post: _
    """
    # texts 0..3 share every tick and differ in tempo map / resolution / unknown lines: a parse that
    # picks up anything from an earlier (already freed) chart shows as a changed observation
    a, b, n = H.pick([0, 1, 2, 3], x), H.pick([0, 1, 2, 3], y), H.pick(LONG_N, ni)
    with H.untraced():
        return done(_run_long(a, b, n) is None)
