"""CrossHair harnesses on chartparse.chart (framing, routing, selection, notes_per_second)."""
from __future__ import annotations

import itertools

import vf.h as H
from vf.h import AbsTime, done

import chartparse.chart as C
import chartparse.globalevents as G
import chartparse.instrument as I
import chartparse.metadata as MD
import chartparse.sync as S
import chartparse.track as T_
from chartparse.chart import Chart
from chartparse.exceptions import RegexNotMatchError
from chartparse.instrument import Difficulty, Instrument

PART = H.part("VF_PART", 0)
NPARTS = H.part("VF_NPARTS", 1)

# the .chart format's section names, written out independently of the enums (oracle)
DIFFS = {"Easy": "EASY", "Medium": "MEDIUM", "Hard": "HARD", "Expert": "EXPERT"}
INSTRS = {"Single": "GUITAR", "DoubleGuitar": "GUITAR_COOP", "DoubleBass": "BASS",
          "DoubleRhythm": "RHYTHM", "Keyboard": "KEYS", "Drums": "DRUMS",
          "GHLGuitar": "GHL_GUITAR", "GHLBass": "GHL_BASS", "GHLCoop": "GHL_COOP",
          "GHLRhythm": "GHL_RHYTHM"}
KNOWN = [(d + i, getattr(Instrument, INSTRS[i]), getattr(Difficulty, DIFFS[d]))
         for i in INSTRS for d in DIFFS]
UNKNOWN = ["ExpertSinglee", "expertsingle", "SingleExpert", "Song2", "Expert Single",
           "ExpertGHLDrums", "EventsX", "ExpertDouble"]
ALLNAMES = [k[0] for k in KNOWN] + UNKNOWN          # 48 names
PAIR_OF = {k[0]: (k[1], k[2]) for k in KNOWN}


# ---------------------------------------------------------------------------------------------
# C06 obligation 1: framing with symbolic body lines
# ---------------------------------------------------------------------------------------------


def _no_brace(ls):
    for x in ls:
        if x == "{" or x == "}":
            return False
    return True


def framing(n0: int, n1: int, n2: int, b0: str, b1: str, b2: str, b3: str, b4: str, b5: str) -> bool:
    """
    pre: 0 <= n0 <= 2 and 0 <= n1 <= 2 and 0 <= n2 <= 2
    pre: _no_brace([b0, b1, b2, b3, b4, b5])
    post: _
    """
    heads = ["Song", "ExpertSingle", "Some Unknown [x]"]
    pool = [[b0, b1], [b2, b3], [b4, b5]]
    ns = [n0, n1, n2]
    lines, bodies = [], []
    for s in range(3):
        lines.append("[" + heads[s] + "]")
        lines.append("{")
        body = []
        for k in range(2):
            if k < ns[s]:
                body.append(pool[s][k])
                lines.append(pool[s][k])
        bodies.append(body)
        lines.append("}")
    d = Chart._partition_lines_by_data_section(lines)
    ok = len(d) == 3
    for s in range(3):
        ok = ok and heads[s] in d
        if not ok:
            return done(False)
        got = list(d[heads[s]])
        ok = ok and len(got) == len(bodies[s])
        if not ok:
            return done(False)
        for k in range(len(got)):
            ok = ok and got[k] is bodies[s][k]
    return done(ok)


# ---------------------------------------------------------------------------------------------
# C06 obligation 3 / C13: routing through Chart.from_file with recording section parsers
# ---------------------------------------------------------------------------------------------


class _FakeFile:
    """A text stream over `text` with the semantics of io.StringIO (no newline translation)."""

    def __init__(self, text):
        self.text = text
        self.pos = 0

    def read(self, n=-1):
        if n is None or n < 0:
            r = self.text[self.pos:]
        else:
            r = self.text[self.pos:self.pos + n]
        self.pos += len(r)
        return r

    def readline(self, *a):
        i = self.text.find("\n", self.pos)
        end = len(self.text) if i < 0 else i + 1
        r = self.text[self.pos:end]
        self.pos = end
        return r

    def __iter__(self):
        while True:
            ln = self.readline()
            if not ln:
                return
            yield ln

    def readlines(self, *a):
        return list(self)


class _Sent:
    """Sentinel returned by a recording parser."""

    def __init__(self, kind, **kw):
        self.kind = kind
        self.__dict__.update(kw)


class _Rec:
    def __init__(self):
        self.calls = []
        self.meta = _Sent("meta", resolution=480)
        self.bpm = object()
        self.sync = _Sent("sync", bpm_events=self.bpm)
        self.glob = _Sent("glob")

    def install(self):
        rec = self

        def md(cls, lines):
            rec.calls.append(("Song", list(lines)))
            return rec.meta

        def sy(cls, resolution, lines):
            rec.calls.append(("SyncTrack", resolution, list(lines)))
            return rec.sync

        def ge(cls, lines, bpm_events):
            rec.calls.append(("Events", list(lines), bpm_events))
            return rec.glob

        def it(cls, instrument, difficulty, lines, bpm_events):
            s = _Sent("track", instrument=instrument, difficulty=difficulty, lines=list(lines),
                      bpm=bpm_events)
            rec.calls.append(("track", s))
            return s

        self.saved = [(MD.Metadata, MD.Metadata.__dict__["from_chart_lines"]),
                      (S.SyncTrack, S.SyncTrack.__dict__["from_chart_lines"]),
                      (G.GlobalEventsTrack, G.GlobalEventsTrack.__dict__["from_chart_lines"]),
                      (I.InstrumentTrack, I.InstrumentTrack.__dict__["from_chart_lines"])]
        MD.Metadata.from_chart_lines = classmethod(md)
        S.SyncTrack.from_chart_lines = classmethod(sy)
        G.GlobalEventsTrack.from_chart_lines = classmethod(ge)
        I.InstrumentTrack.from_chart_lines = classmethod(it)

    def uninstall(self):
        for cls, f in self.saved:
            cls.from_chart_lines = f


NSEC = H.part("VF_NSEC", 1)                 # number of non-required sections
NAME_SLICE = ALLNAMES[PART::NPARTS]        # names this process explores for section 0
PERMS_ALL = H.part("VF_ALLPERMS", 0)


def _perms(n):
    ps = list(itertools.permutations(range(n)))
    if PERMS_ALL:
        return ps
    keep = [ps[0], ps[-1]]
    for p in ps:
        if p[0] == n - 1 or p[-1] == 0:      # an instrument section first / [Song] last
            if p not in keep and len(keep) < 6:
                keep.append(p)
    return keep


PERMS = _perms(3 + NSEC)
_SECOND = ["ExpertDrums", "EasySingle", "NotATrack"]


def _body(tag, k):
    return ["  %d = %s line %d" % (j, tag, j) for j in range(k)]


def _open_text(text, want):
    return Chart.from_file(_FakeFile(text), want_tracks=want)


_OPENER = [_open_text]          # how `route` hands the text to the library (text object / by path)
_DEBUG_LOG = [False]            # the library's logger is enabled for DEBUG (set by route_by_path)


def route(ni: int, nj: int, pi: int, crlf: bool, missing: int,
          use_none: bool, sel0: bool, sel1: bool, sel_absent: bool, empty: int = 0, dup: bool = False) -> bool:
    """
    pre: 0 <= empty <= 2 and (empty == 0 or (missing == 0 and use_none and not crlf))
    pre: 0 <= ni < len(NAME_SLICE)
    pre: 0 <= nj < len(_SECOND) and (NSEC >= 2 or nj == 0)
    pre: 0 <= pi < len(PERMS)
    pre: 0 <= missing <= 3 and (missing == 0 or use_none)
    pre: NSEC >= 2 or not sel1
    pre: not use_none or not (sel0 or sel1 or sel_absent)
    pre: not dup or (sel0 and not use_none)
    post: _
    """
    return _route_core(ni, nj, pi, crlf, missing, use_none, sel0, sel1, sel_absent, empty, dup)


def _route_core(ni, nj, pi, crlf, missing, use_none, sel0, sel1, sel_absent, empty, dup=False):
    # no contract of its own: a callee with a contract is *enforced* by CrossHair while another
    # harness (route_by_path) calls it, and a failing callee postcondition silently drops the path
    has_song, has_sync, has_events = missing != 1, missing != 2, missing != 3
    names = [NAME_SLICE[ni]]
    if NSEC >= 2:
        names.append(_SECOND[nj])
        if names[1] == names[0]:
            return True
    sections = []
    if has_song:
        sections.append(("Song", _body("Song", 2)))
    if has_sync:
        sections.append(("SyncTrack", _body("Sync", 1)))
    ev_body = [] if empty == 1 else _body("Ev", 3)      # a present section may have an empty body
    t_bodies = [([] if (empty == 2 and k == 0) else _body("T%d" % k, 2 + k)) for k in range(len(names))]
    if has_events:
        sections.append(("Events", ev_body))
    for k, nm in enumerate(names):
        sections.append((nm, t_bodies[k]))
    perm = PERMS[pi]
    order = [p for p in perm if p < len(sections)]
    nl = "\r\n" if crlf else "\n"
    lines = []
    for p in order:
        tag, body = sections[p]
        lines += ["[" + tag + "]", "{"] + body + ["}"]
    text = nl.join(lines) + nl
    sel = [sel0, sel1]
    want = None
    if not use_none:
        want = []
        for k, nm in enumerate(names):
            if sel[k] and nm in PAIR_OF:
                want.append(PAIR_OF[nm])
        if sel_absent:
            for cand in ("MediumGHLCoop", "EasyKeyboard", "HardGHLBass"):
                if cand not in names:                                # a pair that is not in the file
                    want.append(PAIR_OF[cand])
                    break
        if dup and want:
            want.append(want[0])        # a selection may name a pair twice (e.g. two overlapping lists concatenated)
    rec = _Rec()
    log = H.CountingLogger(debug_on=_DEBUG_LOG[0])
    rec.install()
    try:
        with H.patched((C, "logger", log)):
            try:
                chart = _OPENER[0](text, want)
            except ValueError:
                return done(not (has_song and has_sync and has_events))
    finally:
        rec.uninstall()
    ok = has_song and has_sync and has_events
    if not ok:
        return done(False)
    ok = chart.metadata is rec.meta and chart.sync_track is rec.sync and chart.global_events_track is rec.glob
    by = {c[0]: c for c in rec.calls if c[0] != "track"}
    ok = ok and len(by) == 3 and by["Song"][1] == _body("Song", 2)
    ok = ok and by["SyncTrack"][1] == 480 and by["SyncTrack"][2] == _body("Sync", 1)
    ok = ok and by["Events"][1] == ev_body and by["Events"][2] is rec.bpm
    tcalls = [c[1] for c in rec.calls if c[0] == "track"]
    expect = {}
    n_unknown = 0
    for k, nm in enumerate(names):
        if nm in PAIR_OF:
            if use_none or sel[k]:
                expect[PAIR_OF[nm]] = k
        else:
            n_unknown += 1
    ok = ok and len(tcalls) == len(expect) and len(log.warnings) == n_unknown
    got = chart.instrument_tracks
    ok = ok and sum(len(v) for v in got.values()) == len(expect)
    ok = ok and set(got.keys()) == {p[0] for p in expect}
    for (ins, dif), k in expect.items():
        ok = ok and ins in got and dif in got[ins]
        if not ok:
            return done(False)
        s = got[ins][dif]
        ok = ok and s.kind == "track" and s.instrument is ins and s.difficulty is dif
        ok = ok and s.lines == t_bodies[k] and s.bpm is rec.bpm
        ok = ok and sum(1 for c in tcalls if c is s) == 1
    for nm in names:
        if nm not in PAIR_OF:
            ok = ok and any(nm in w for w in log.warnings)
    return done(ok)


# ---------------------------------------------------------------------------------------------
# C06 BOM clause: Chart.from_filepath on a modelled file (documented codec / text-mode contract)
# ---------------------------------------------------------------------------------------------
_BOM = "\ufeff"


def _norm_enc(e):
    return None if e is None else str(e).lower().replace("_", "-")


class _ModelFile:
    """A file on disk = optional UTF-8 byte-order mark + UTF-8 bytes of `text`.  What text-mode reading
    returns is the documented contract of `open`: codec `utf-8-sig` drops one leading BOM, `utf-8`
    keeps it as U+FEFF; `newline=None` (universal newlines) turns CRLF into LF.  Anything else the
    code under test asks of the file is outside the model (Poison: the harness cannot judge)."""

    def __init__(self, text, bom):
        self.text, self.bom, self.opened = text, bom, 0

    def content(self, mode="r", encoding=None, newline=None, errors=None, **kw):
        if kw or ("b" in mode) or any(c in mode for c in "wax+"):
            raise H.Poison("file opened in a way the model does not cover: %r %r" % (mode, kw))
        enc = _norm_enc(encoding)
        if enc in ("utf-8-sig",):
            t = self.text
        elif enc in (None, "utf-8", "utf8"):
            t = (_BOM + self.text) if self.bom else self.text
        else:
            raise H.Poison("encoding outside the model: %r" % (encoding,))
        if newline is None:
            t = t.replace("\r\n", "\n")
        elif newline != "":
            raise H.Poison("newline mode outside the model")
        self.opened += 1
        return t


class _ModelHandle:
    def __init__(self, t):
        self.t = t

    def read(self, *a):
        return self.t

    def readlines(self, *a):
        return self.t.splitlines(True)

    def __iter__(self):
        return iter(self.t.splitlines(True))

    def __enter__(self):
        return self

    def __exit__(self, *a):
        return False

    def close(self):
        pass

    def __getattr__(self, name):
        raise H.Poison("modelled file handle used through %r (outside the model)" % name)


class _ModelPath:
    """Path-like object for the modelled file (whatever way the library reads a path: open(path),
    path.open(), path.read_text())."""

    def __init__(self, mf):
        self.mf = mf

    def __fspath__(self):
        return "/nonexistent/model.chart"

    def open(self, mode="r", buffering=-1, encoding=None, errors=None, newline=None):
        return _ModelHandle(self.mf.content(mode, encoding=encoding, newline=newline))

    def read_text(self, encoding=None, errors=None, newline=None):
        return self.mf.content("r", encoding=encoding, newline=newline)

    def __getattr__(self, name):
        raise H.Poison("modelled path used through %r (outside the model)" % name)


def _real_file_parse(text, bom, want):
    """Concrete runs (replays) use a real file: real bytes, the real codec."""
    import pathlib
    import tempfile
    with tempfile.TemporaryDirectory() as d:
        pth = pathlib.Path(d) / "x.chart"
        pth.write_bytes((b"\xef\xbb\xbf" if bom else b"") + text.encode("utf-8"))
        return Chart.from_filepath(pth, want_tracks=want)


def route_by_path(ni: int, pi: int, crlf: bool, bom: bool, sel0: bool, use_none: bool, dbg: bool = False) -> bool:
    """
    pre: 0 <= ni < len(NAME_SLICE) and 0 <= pi < len(PERMS)
    pre: not use_none or not sel0
    post: _
    """
    tracing = False
    try:
        from crosshair.tracers import is_tracing
        tracing = is_tracing()
    except ImportError:
        pass

    def opener(text, want):
        if not tracing:
            return _real_file_parse(text, bom, want)
        mf = _ModelFile(text, bom)
        path = _ModelPath(mf)

        def fake_open(file, mode="r", buffering=-1, encoding=None, errors=None, newline=None, **kw):
            if file is not path:
                raise H.Poison("open() of something else")
            return _ModelHandle(mf.content(mode, encoding=encoding, newline=newline, **kw))

        with H.patched((C, "open", fake_open)):
            chart = Chart.from_filepath(path, want_tracks=want)
        if mf.opened != 1:
            raise H.Poison("the file was not read through the modelled interface exactly once")
        return chart

    _OPENER[0] = opener
    _DEBUG_LOG[0] = True if dbg else False      # ... in an application that runs the library's loggers at DEBUG
    try:
        return _route_core(ni, 0, pi, crlf, 0, use_none, sel0, False, False, 0)
    except RegexNotMatchError:
        return done(False)          # e.g. the mark left in front of the first header
    finally:
        _OPENER[0] = _open_text
        _DEBUG_LOG[0] = False


def route_twice(ni: int, nj: int, pi: int, sel_first: bool, absent_first: bool, use_none2: bool, sel2: bool) -> bool:
    """
    pre: 0 <= ni < len(NAME_SLICE) and 0 <= nj < len(NAME_SLICE) and ni != nj and 0 <= pi < len(PERMS)
    pre: not use_none2 or not sel2
    post: _
    """
    # two parses in one process: a restricted parse of a file with section ni (selection: that pair and/or
    # a pair absent from the file), then a parse of ANOTHER file (section nj, no section for the first
    # selection): the second result is what it would be as the first parse
    r0 = H.REACHED[0]
    a = _route_core(ni, 0, 0, False, 0, False, sel_first, False, absent_first, 0)
    b = _route_core(nj, 0, pi, False, 0, use_none2, sel2, False, False, 0)
    if H.REACHED[0] > r0 + 1:
        H.REACHED[0] = r0 + 1          # one explored case, although both parses report through done()
    return a and b


# ---------------------------------------------------------------------------------------------
# C06 newline independence at file scale: a CRLF pair placed exactly on a power-of-two offset
# ---------------------------------------------------------------------------------------------
_FS_OFFSETS = [2 ** k for k in (10, 12, 13, 14, 15, 16, 17)]
_FS_KINDS = ["}", "{", "[", "N"]          # the line whose terminator straddles the offset: closing brace, opening brace, header, body line


def _fs_lines(pad):
    lines = ["[Song]", "{", '  Name = "' + "x" * pad + '"', "  Resolution = 192", "}", "[SyncTrack]", "{", "  0 = TS 4", "  0 = B 120000", "}",
             "[Events]", "{", '  0 = E "section a"', "}"]
    for k, (nm, ins, dif) in enumerate(KNOWN):
        lines += ["[" + nm + "]", "{"] + ["  %d = N %d 0" % (10 * j + k, j % 5) for j in range(170)] + ["}"]
    return lines


def _fs_text(offset, kind, mult, nl="\r\n"):
    """Text in which the line terminator of a line of the wanted kind ends at / straddles character number
    mult*offset: CRLF - the CR is character number mult*offset (a reader working in blocks of `offset`
    characters sees CR and LF in different blocks); LF - the LF is that character (a block ends exactly
    on a line boundary)."""
    target = mult * offset - 1
    lines = _fs_lines(0)
    pos, best = 0, None
    for i, ln in enumerate(lines):
        cr = pos + len(ln)                       # index of this line's first terminator character
        if i > 2 and ln.strip()[:1] == kind and cr <= target:
            best = cr
        pos = cr + len(nl)
    if best is None:
        return None
    lines = _fs_lines(target - best)
    text = nl.join(lines) + nl
    assert text[target] == nl[0]
    return lines, text


def crlf_file_scale(oi: int, ki: int, mult: int) -> bool:
    """
    pre: 0 <= oi < len(_FS_OFFSETS) and 0 <= ki < len(_FS_KINDS) and 1 <= mult <= 2
    post: _
    """
    offset, kind, mult = H.pick(_FS_OFFSETS, oi), H.pick(_FS_KINDS, ki), H.pick([1, 2], mult - 1)
    with H.untraced():      # concrete on every path: the solver only chooses the case
        made = _fs_text(offset, kind, mult)
        made_lf = _fs_text(offset, kind, mult, "\n")
        if made is None or made_lf is None:
            return done(True)
        lines, crlf = made
        lf = "\n".join(lines) + "\n"
        log = H.CountingLogger()
        with H.patched((C, "logger", log), (T_, "logger", log)):
            a = Chart.from_file(io.StringIO(lf))
            b = Chart.from_file(io.StringIO(crlf))
            c = Chart.from_file(io.StringIO(made_lf[1]))         # LF text with a block boundary exactly on a line boundary
        ok = observe(a) == observe(b) and a == b and len(log.warnings) == 0
        for ch in (a, c):
            ok = ok and len(ch.instrument_tracks) == 10 and all(len(t.note_events) == 170 for dd in ch.instrument_tracks.values() for t in dd.values())
            ok = ok and len(ch.global_events_track.section_events) == 1 and len(ch.sync_track.bpm_events) == 1
    return done(ok)


# ---------------------------------------------------------------------------------------------
# C16: notes_per_second over an abstract clock
# ---------------------------------------------------------------------------------------------
from chartparse.instrument import HOPOState, InstrumentTrack, Note, NoteEvent  # noqa: E402

NN = H.part("VF_NN", 2)


class _FuncMap:
    """Functional stand-in tempo map: time(tick) = 7*tick + 3 us; consistent however often it is asked."""

    def __init__(self):
        self.calls = []

    @staticmethod
    def F(tick):
        return 7 * tick + 3

    def timestamp_at_tick_no_optimize_return(self, tick):
        self.calls.append(tick)
        if tick < 0:
            raise ValueError("negative tick")
        return AbsTime(self.F(tick))

    def timestamp_at_tick(self, tick, *, start_iteration_index=0):
        return self.timestamp_at_tick_no_optimize_return(tick), 0


class _RecMap:
    def __init__(self, pool):
        self.pool = list(pool)
        self.calls = []

    def timestamp_at_tick_no_optimize_return(self, tick):
        self.calls.append(tick)
        return AbsTime(self.pool.pop(0))

    def timestamp_at_tick(self, tick, *, start_iteration_index=0):
        self.calls.append(tick)
        return AbsTime(self.pool.pop(0)), 0


def _mk_chart(notes, tempo, plain_dict=False, offset=0):
    import collections
    tr = InstrumentTrack(instrument=Instrument.GUITAR, difficulty=Difficulty.EXPERT,
                         note_events=notes, star_power_events=[], track_events=[])
    tracks = {} if plain_dict else collections.defaultdict(dict)
    tracks[Instrument.GUITAR] = {Difficulty.EXPERT: tr}
    sync = _Sent("sync", bpm_events=tempo)
    # a real Metadata object: every [Song] value is there to be read (none of them bears on the rate)
    meta = MD.Metadata(resolution=192, offset=offset, difficulty=3, preview_start=offset, preview_end=offset + 5, name="n")
    return Chart(meta, _Sent("glob"), sync, tracks), tr


def nps(form: int, n: int, ts0: int, ts1: int, ts2: int, en0: int, en1: int, en2: int,
        a: int, b: int, ua: int, ub: int, inst_ok: bool, diff_ok: bool, off: int = 0, kw: bool = False) -> bool:
    """
    pre: 0 <= form <= 5 and 0 <= off <= 3
    pre: 0 <= n <= NN
    pre: ts0 >= 0 and ts1 >= 0 and ts2 >= 0
    pre: ts0 <= en0 and ts1 <= en1 and ts2 <= en2
    pre: a >= 0 and b >= 0
    post: _
    """
    # the notes' start times are in ANY order (a section whose note lines are not tick-sorted keeps
    # file order; the count is over all notes of the track whatever their order)
    ts, en = [ts0, ts1, ts2][:n], [en0, en1, en2][:n]
    notes = [NoteEvent(tick=i, timestamp=AbsTime(ts[i]), end_timestamp=AbsTime(en[i]),
                       note=Note.G, hopo_state=HOPOState.STRUM) for i in range(n)]
    tempo = _FuncMap()
    chart, tr = _mk_chart(notes, tempo, offset=off)
    inst = Instrument.GUITAR if inst_ok else Instrument.BASS
    diff = Difficulty.EXPERT if diff_ok else Difficulty.EASY
    last_end = None
    for x in en:
        if last_end is None or x > last_end:
            last_end = x
    # what the call should resolve the bounds to (microseconds), and which ticks it must look up
    if form == 0:
        args, lookups = (), []
        s_us, e_us = 0, last_end
    elif form == 1:
        args, lookups = (a,), [a]
        s_us, e_us = _FuncMap.F(a), last_end
    elif form == 2:
        args, lookups = (a, b), [a, b]
        s_us, e_us = _FuncMap.F(a), _FuncMap.F(b)
    elif form == 3:
        args, lookups = (AbsTime(a),), []
        s_us, e_us = a, last_end
    elif form == 4:
        args, lookups = (AbsTime(a), AbsTime(b)), []
        s_us, e_us = a, b
    else:
        args, lookups = (None, b), [b]
        s_us, e_us = 0, _FuncMap.F(b)
    with H.patched((C, "timedelta", H.TD)):
        try:
            if kw:      # the bounds by keyword (and the track by keyword as well)
                kws = dict(zip(("start", "end"), args))
                got = chart.notes_per_second(instrument=inst, difficulty=diff, **kws)
            else:
                got = chart.notes_per_second(inst, diff, *args)
        except ValueError:
            bad = (not inst_ok) or (not diff_ok) or n == 0 or e_us - s_us <= 0
            return done(bad)
    if (not inst_ok) or (not diff_ok) or n == 0 or e_us - s_us <= 0:
        return done(False)
    count = 0
    for i in range(n):
        if s_us <= ts[i] and ts[i] <= e_us:
            count += 1
    ok = isinstance(got, H.Rate) and got.num == count and got.us == e_us - s_us
    ok = ok and all(t in lookups for t in tempo.calls)      # only the bound ticks are asked about
    return done(ok)


# ---------------------------------------------------------------------------------------------
# C19: a parsed chart is an immutable value under read-only use
# ---------------------------------------------------------------------------------------------
import copy  # noqa: E402
import dataclasses  # noqa: E402
import io  # noqa: E402

from harness.h_sync import BPMS  # noqa: E402,F401

from harness.h_hist import C19_TEXT  # noqa: E402



CV = H.part("VF_CV", 0)      # the chart under test: 0 default, 1 want_tracks=[], 2 one selected track,
#                              3 Player2 = rhythm with bass tracks only, 4 a long track (600 notes), 5 note-less tracks
_C19_WANT = [None, [], [(Instrument.DRUMS, Difficulty.HARD)], None, None, None][CV]
_C19_TEXTS = [C19_TEXT, C19_TEXT, C19_TEXT,
              C19_TEXT.replace('  Name = "t"', '  Name = "t"\n  Player2 = rhythm').replace("[HardDrums]", "[HardDoubleBass]")
              + "[EasyDoubleBass]\n{\n  0 = N 1 0\n}\n",
              C19_TEXT.replace("[HardDrums]", "[HardSingle]\n{\n" + "".join("  %d = N %d 0\n" % (10 * k, k % 5) for k in range(600)) + "}\n[HardDrums]"),
              # 5: tracks without any note (a phrase only / nothing at all) next to tracks with notes
              C19_TEXT + "[EasySingle]\n{\n  0 = S 2 100\n}\n[MediumDrums]\n{\n}\n"]


def _parse_c19():
    return Chart.from_file(io.StringIO(_C19_TEXTS[CV]), want_tracks=_C19_WANT)


try:
    _PRISTINE = _parse_c19()
    _TWIN = _parse_c19()
    _C19_ERR = None
except Exception as _e:  # noqa: BLE001  (reported by the harness itself)
    _PRISTINE = _TWIN = None
    _C19_ERR = _e

INSTR_ALL = list(Instrument)
INSTR_SET = [INSTR_ALL[i] for i in range(len(INSTR_ALL)) if i % NPARTS == PART] if H.part("VF_ALLINSTR", 0) \
    else ([Instrument.GUITAR, Instrument.BASS, Instrument.DRUMS] if CV != 3 else [Instrument.RHYTHM, Instrument.BASS, Instrument.GUITAR])
DIFF_ALL = list(Difficulty)


from harness.h_hist import _ev, _norm, observe  # noqa: E402,F401




def observe19(chart):
    """Every public datum plus the renderings a user can print (str / repr of the chart and of its parts)."""
    parts = [chart.metadata, chart.sync_track, chart.global_events_track]
    for dd in list(chart.instrument_tracks.values()):
        parts += list(dd.values())
    return (observe(chart), repr(chart), str(chart), tuple((repr(p_), str(p_)) for p_ in parts))


_OBS0 = observe19(_PRISTINE) if _PRISTINE is not None else None
C19_MULT = {125.0: 2500, 62.5: 5000}   # exact microseconds per tick at resolution 192 (linear clock)
NOPS = 9


def _all_events(chart):
    out = list(chart.sync_track.time_signature_events) + list(chart.sync_track.bpm_events.events) + \
        list(chart.sync_track.anchor_events)
    g = chart.global_events_track
    out += list(g.text_events) + list(g.section_events) + list(g.lyric_events)
    for dd in list(chart.instrument_tracks.values()):
        for t in list(dd.values()):
            out += list(t.note_events) + list(t.star_power_events) + list(t.track_events)
    return out


def _do_op(chart, twin, op, ii, dj, form, a, b):
    inst = INSTR_SET[ii]
    diff = DIFF_ALL[dj]
    clock = H.Clock("linear", mult=C19_MULT)
    with H.abstract_time(clock):
        if op == 0:
            if form == 0:
                args = ()
            elif form == 1:
                args = (a,)
            elif form == 2:
                args = (a, b)
            elif form == 3:
                args = (AbsTime(a),)
            elif form == 4:
                args = (AbsTime(a), AbsTime(b))
            else:
                args = (None, b)
            try:
                chart.notes_per_second(inst, diff, *args)
            except ValueError:
                pass
        elif op == 1:
            try:
                d = chart[inst]
                len(d)
                diff in d
            except KeyError:
                pass
        elif op == 2:
            try:
                chart.sync_track.bpm_events.timestamp_at_tick(a, start_iteration_index=b)
            except ValueError:
                pass
        elif op == 3:
            try:
                chart.sync_track.bpm_events.timestamp_at_tick_no_optimize_return(a)
            except ValueError:
                pass
        elif op == 4:
            str(chart)
            repr(chart)
            for e in _all_events(chart):
                str(e)
                repr(e)
            for dd in list(chart.instrument_tracks.values()):
                for t in list(dd.values()):
                    str(t)
                    repr(t)
            str(chart.metadata), repr(chart.sync_track), repr(chart.global_events_track)
        elif op == 5:
            chart == twin
            twin == chart
            chart != twin
            for e, f in zip(_all_events(chart), _all_events(twin)):
                e == f
            with H.untraced():      # no symbolic input; CrossHair's hash model forks needlessly
                for e in _all_events(chart):
                    hash(e)
        elif op == 6:
            for dd in list(chart.instrument_tracks.values()):
                for t in list(dd.values()):
                    t.last_note_end_timestamp
                    t.header_tag
                    for n in t.note_events:
                        n.end_tick
                        n.longest_sustain
                    for s in t.star_power_events:
                        s.end_tick
                        s.tick_is_during_event(a)
                        s.tick_is_after_event(a)
        elif op == 7:
            be = chart.sync_track.bpm_events
            len(be)
            try:
                be[ii]
                be[0:dj]
            except IndexError:
                pass
        else:
            try:
                t = chart.instrument_tracks.get(inst)
                if t is not None:
                    t.get(diff)
                inst in chart.instrument_tracks
            except KeyError:
                pass


def _cases(ops):
    out = []
    for op in ops:
        if op == 0:
            out += [(0, ii, dj, f) for ii in range(len(INSTR_SET)) for dj in range(len(DIFF_ALL)) for f in range(6)]
        elif op in (1, 7, 8):
            out += [(op, ii, dj, 0) for ii in range(len(INSTR_SET)) for dj in range(len(DIFF_ALL))]
        else:
            out.append((op, 0, 0, 0))
    return out


import os as _os  # noqa: E402

OP1SET = [int(x) for x in _os.environ.get("VF_OP1SET", "0,1,2,3,4,5,6,7,8").split(",")]
OP2SET = [int(x) for x in _os.environ.get("VF_OP2SET", "0,1,2,3,4,5,6,7,8").split(",")]
CASES1 = _cases(OP1SET)
CASES2 = _cases(OP2SET)


def immutability(c1: int, a: int, b: int) -> bool:
    """
    pre: 0 <= c1 < len(CASES1)
    pre: a >= 0 and b >= 0
    pre: CV != 4 or (a <= 2 and b <= 2)
    post: _
    """
    if _C19_ERR is not None:
        raise _C19_ERR
    (op, ii, dj, form) = H.pick(CASES1, c1)
    with H.untraced():
        chart = copy.deepcopy(_PRISTINE)
    twin = _TWIN
    _do_op(chart, twin, op, ii, dj, form, a, b)
    with H.untraced():
        ok = observe19(chart) == _OBS0 and chart == twin and twin == chart
    return done(ok)


def immutability2(c1: int, c2: int, a: int, b: int) -> bool:
    """
    pre: 0 <= c1 < len(CASES1) and 0 <= c2 < len(CASES2)
    pre: a >= 0 and b >= 0
    post: _
    """
    if _C19_ERR is not None:
        raise _C19_ERR
    (op, ii, dj, form) = H.pick(CASES1, c1)
    (op2, ii2, dj2, form2) = H.pick(CASES2, c2)
    with H.untraced():
        chart = copy.deepcopy(_PRISTINE)
    twin = _TWIN
    _do_op(chart, twin, op, ii, dj, form, a, b)
    with H.untraced():
        ok = observe19(chart) == _OBS0 and chart == twin
    _do_op(chart, twin, op2, ii2, dj2, form2, b, a)
    with H.untraced():
        ok = ok and observe19(chart) == _OBS0 and chart == twin and twin == chart
    return done(ok)


def _frozen_targets():
    c = _PRISTINE
    objs = [c.metadata, c.sync_track, c.sync_track.bpm_events, c.global_events_track]
    seen = set()
    for e in _all_events(c):
        if type(e) not in seen:
            seen.add(type(e))
            objs.append(e)
    for dd in c.instrument_tracks.values():
        for t in dd.values():
            objs.append(t)
            break
        break
    out = []
    for o in objs:
        for f in dataclasses.fields(o):
            out.append((o, f.name))
    return out


_FROZEN = _frozen_targets() if _PRISTINE is not None else []


def rejects_assignment(k: int, v: int) -> bool:
    """
    pre: 0 <= k < len(_FROZEN)
    post: _
    """
    obj, name = _FROZEN[k]
    before = getattr(obj, name, None)
    try:
        setattr(obj, name, v)
    except (dataclasses.FrozenInstanceError, AttributeError):
        return done(getattr(obj, name, None) is before)
    # restore so that later paths see the pristine object, then report
    try:
        object.__setattr__(obj, name, before)
    except Exception:  # noqa: BLE001
        pass
    return done(False)


# ---------------------------------------------------------------------------------------------
# C06 / C13 with the real section parsers on concrete text
# ---------------------------------------------------------------------------------------------
_SONG = ["[Song]", "{", '  Name = "x"', "  Resolution = 192", "}"]
_SYNC = ["[SyncTrack]", "{", "  0 = TS 4", "  0 = B 120000", "  384 = B 60000", "  384 = A 2000000", "}"]
_EVTS = ["[Events]", "{", '  0 = E "section a"', '  96 = E "lyric b"', "}"]
_TRACK_A = ["  0 = N 0 0", "  96 = N 1 48", "  96 = N 2 0", "  100 = S 2 50", "  400 = N 7 0"]
_TRACK_B = ["  10 = N 3 0", "  20 = E solo"]
# unsorted across the tempo change at 384: rejected when parsed (ticks 96 / 0 also occur in other sections)
_TRACK_BAD = ["  500 = N 3 0", "  96 = N 1 0", "  96 = N 5 0", "  0 = E solo"]
_REAL_NAMES = ["ExpertSingle", "EasyDoubleBass", "MediumGHLCoop", "HardKeyboard", "ExpertSinglee"]
_REAL_PERMS = [(0, 1, 2, 3), (3, 2, 1, 0), (1, 3, 0, 2), (2, 0, 3, 1)]


def _text(sections, perm, crlf):
    lines = []
    for p in perm:
        if p < len(sections):
            lines += sections[p]
    nl = "\r\n" if crlf else "\n"
    return nl.join(lines) + nl


def route_real(ni: int, pi: int, crlf: bool) -> bool:
    """
    pre: 0 <= ni < len(_REAL_NAMES) and 0 <= pi < len(_REAL_PERMS)
    post: _
    """
    nm = _REAL_NAMES[ni]
    secs = [_SONG, _SYNC, _EVTS, ["[" + nm + "]", "{"] + _TRACK_A + ["}"]]
    log = H.CountingLogger()
    with H.patched((C, "logger", log)):
        ref = Chart.from_file(io.StringIO(_text(secs, (0, 1, 2, 3), False)))
        got = Chart.from_file(io.StringIO(_text(secs, _REAL_PERMS[pi], crlf)))
    ok = got == ref and ref == got and observe(got) == observe(ref)
    if nm in PAIR_OF:
        ins, dif = PAIR_OF[nm]
        ok = ok and list(got.instrument_tracks.keys()) == [ins] and list(got.instrument_tracks[ins].keys()) == [dif]
        t = got.instrument_tracks[ins][dif]
        ok = ok and t.instrument is ins and t.difficulty is dif and len(t.note_events) == 3 and t.header_tag == nm
        ok = ok and len(log.warnings) == 0
    else:
        ok = ok and len(got.instrument_tracks) == 0 and len(log.warnings) == 2
    ok = ok and got.metadata.name == "x" and got.metadata.resolution == 192
    ok = ok and len(got.sync_track.bpm_events) == 2 and len(got.global_events_track.section_events) == 1
    return done(ok)


_TRACK_HDR = ["  10 = N 3 0", "[ExpertSingle]", "[Song]", "  20 = E solo"]   # header-like lines inside a body


def select_real(mode: int, selA: bool, selB: bool, sel_absent: bool, bad: bool, hdr: bool, pi: int) -> bool:
    """
    pre: 0 <= mode <= 2 and 0 <= pi < len(_REAL_PERMS)
    pre: mode == 2 or not (selA or selB or sel_absent)
    pre: not (bad and hdr)
    post: _
    """
    A, B_ = (Instrument.GUITAR, Difficulty.EXPERT), (Instrument.DRUMS, Difficulty.HARD)
    good_secs = [_SONG, _SYNC, _EVTS, ["[ExpertSingle]", "{"] + _TRACK_A + ["}", "[HardDrums]", "{"] + _TRACK_B + ["}"]]
    body_b = _TRACK_BAD if bad else (_TRACK_HDR if hdr else _TRACK_B)
    secs = [_SONG, _SYNC, _EVTS, ["[ExpertSingle]", "{"] + _TRACK_A + ["}", "[HardDrums]", "{"] + body_b + ["}"]]
    want = None
    if mode == 1:
        want = []
    elif mode == 2:
        want = []
        if selA:
            want.append(A)
        if sel_absent:
            want.append((Instrument.KEYS, Difficulty.EASY))
        if selB:
            want.append(B_)
    log = H.CountingLogger()
    with H.patched((C, "logger", log), (__import__("chartparse.track", fromlist=["x"]), "logger", H.CountingLogger())):
        ref = Chart.from_file(io.StringIO(_text(good_secs, (0, 1, 2, 3), False)))
        b_parsed = mode == 0 or (mode == 2 and selB)
        try:
            got = Chart.from_file(io.StringIO(_text(secs, _REAL_PERMS[pi], False)), want_tracks=want)
        except ValueError:
            return done(bad and b_parsed)
    if bad and b_parsed:
        return done(False)
    exp = []
    if mode == 0 or (mode == 2 and selA):
        exp.append(A)
    if b_parsed:
        exp.append(B_)
    keys = [(i, d) for i in got.instrument_tracks for d in got.instrument_tracks[i]]
    ok = sorted(k[0].name for k in keys) == sorted(k[0].name for k in exp) and len(keys) == len(exp)
    ok = ok and len([i for i in got.instrument_tracks if len(got.instrument_tracks[i]) == 0]) == 0
    for (i, d) in exp:
        ok = ok and i in got.instrument_tracks and d in got.instrument_tracks[i]
        if not ok:
            return done(False)
        ok = ok and got.instrument_tracks[i][d] == ref.instrument_tracks[i][d]
    ok = ok and got.metadata == ref.metadata and got.sync_track == ref.sync_track
    ok = ok and got.global_events_track == ref.global_events_track
    return done(ok)


# ---------------------------------------------------------------------------------------------
# C16 on a really parsed chart (tick bounds through the real tempo lookup, linear clock)
# ---------------------------------------------------------------------------------------------


def _us_of_tick(t):
    if t < 768:
        return 2500 * t
    return 2500 * 768 + 5000 * (t - 768)


def nps_real(form: int, a: int, b: int) -> bool:
    """
    pre: 0 <= form <= 5 and a >= 0 and b >= 0
    post: _
    """
    if _C19_ERR is not None:
        raise _C19_ERR
    chart = _PRISTINE
    note_us = [0, 240000, 2080000]          # notes at ticks 0, 96, 800
    last_end = 2080000                       # max(end times): tick 396 -> 990000, tick 800 -> 2080000
    if form == 0:
        args, s_us, e_us = (), 0, last_end
    elif form == 1:
        args, s_us, e_us = (a,), _us_of_tick(a), last_end
    elif form == 2:
        args, s_us, e_us = (a, b), _us_of_tick(a), _us_of_tick(b)
    elif form == 3:
        args, s_us, e_us = (AbsTime(a),), a, last_end
    elif form == 4:
        args, s_us, e_us = (AbsTime(a), AbsTime(b)), a, b
    else:
        args, s_us, e_us = (None, b), 0, _us_of_tick(b)
    clock = H.Clock("linear", mult=C19_MULT)
    with H.abstract_time(clock):
        try:
            got = chart.notes_per_second(Instrument.GUITAR, Difficulty.EXPERT, *args)
        except ValueError:
            return done(e_us - s_us <= 0)
    if e_us - s_us <= 0:
        return done(False)
    count = 0
    for x in note_us:
        if s_us <= x and x <= e_us:
            count += 1
    return done(isinstance(got, H.Rate) and got.num == count and got.us == e_us - s_us)


# ---------------------------------------------------------------------------------------------
# C06/C13: several instrument sections, same instrument not adjacent, every order
# ---------------------------------------------------------------------------------------------
_MULTI = ["ExpertSingle", "ExpertDrums", "HardSingle", "EasyDrums"]
NMULTI = H.part("VF_NMULTI", 3)
_MPERMS = list(itertools.permutations(range(NMULTI)))


def route_multi(pi: int, where: int, use_none: bool, s0: bool, s1: bool, s2: bool, s3: bool, same: int = 0) -> bool:
    """
    pre: 0 <= pi < len(_MPERMS) and 0 <= where <= 3 and 0 <= same <= 2
    pre: not use_none or not (s0 or s1 or s2 or s3)
    pre: NMULTI >= 4 or not s3
    post: _
    """
    names = _MULTI[:NMULTI]
    sel = [s0, s1, s2, s3]
    perm = H.pick(_MPERMS, pi)
    req = [("Song", _body("Song", 1)), ("SyncTrack", _body("Sync", 1)), ("Events", _body("Ev", 1))]
    # section bodies: all different / line-for-line identical (co-op copied from lead, a difficulty copied
    # down) / all empty (placeholders): each section still yields its own track under its own key
    def body_of(k):
        return _body("M%d" % k, 1 + k) if same == 0 else (_body("M", 2) if same == 1 else [])
    tracks = [(names[k], body_of(k)) for k in perm]
    # the required sections are placed before / between / after the instrument sections
    if where == 0:
        sections = req + tracks
    elif where == 1:
        sections = tracks + req
    elif where == 2:
        sections = [tracks[0]] + req + tracks[1:]
    else:
        sections = [req[0], tracks[0], req[1]] + tracks[1:-1] + [req[2], tracks[-1]]
    lines = []
    for tag, body in sections:
        lines += ["[" + tag + "]", "{"] + body + ["}"]
    want = None
    if not use_none:
        want = [PAIR_OF[names[k]] for k in range(NMULTI) if sel[k]]
    rec = _Rec()
    rec.install()
    try:
        with H.patched((C, "logger", H.CountingLogger())):
            chart = Chart.from_file(_FakeFile("\n".join(lines) + "\n"), want_tracks=want)
    finally:
        rec.uninstall()
    got = chart.instrument_tracks
    ok = True
    n_expected = 0
    for k in range(NMULTI):
        ins, dif = PAIR_OF[names[k]]
        chosen = use_none or sel[k]
        present = ins in got and dif in got[ins]
        ok = ok and present == chosen
        if chosen and present:
            n_expected += 1
            t = got[ins][dif]
            ok = ok and t.instrument is ins and t.difficulty is dif and t.lines == body_of(k)
    ok = ok and sum(len(v) for v in got.values()) == n_expected
    ok = ok and len([c for c in rec.calls if c[0] == "track"]) == n_expected
    return done(ok)


