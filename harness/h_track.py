"""CrossHair harnesses on the line dispatcher and the per-track wiring."""
from __future__ import annotations

import vf.h as H
from vf.h import done

import chartparse.globalevents as G
import chartparse.instrument as I
import chartparse.sync as S
import chartparse.track as T
from chartparse.exceptions import RegexNotMatchError

NL = H.part("VF_NL", 4)
LINES = ["L0 zero", "L1 one", "L2 two", "L3 three"]
_RUN = [0]


def fresh_lines(n=4):
    """Line texts unique to this harness invocation: state that a (mutated) implementation keeps per
    line text can then only act *within* one explored path, which keeps paths independent."""
    _RUN[0] += 1
    return ["L%d text of run %d" % (i, _RUN[0]) for i in range(n)]


class _Datum:
    def __init__(self, kind, line):
        self.kind = kind
        self.line = line


def _mk_kind(k, accept, lines=None):
    lines = LINES if lines is None else lines

    class Kind:
        @classmethod
        def from_chart_line(cls, line):
            if accept[lines.index(line)]:
                return _Datum(k, line)
            raise RegexNotMatchError("stub-regex-%d" % k, line)
    Kind.__qualname__ = "Kind%d" % k
    return Kind


def dispatcher(a0: bool, a1: bool, a2: bool, a3: bool, b0: bool, b1: bool, b2: bool, b3: bool,
               c0: bool, c1: bool, c2: bool, c3: bool) -> bool:
    """
    post: _
    """
    acc = [[a0, a1, a2, a3], [b0, b1, b2, b3], [c0, c1, c2, c3]]
    all_lines = fresh_lines(4)
    kinds = [_mk_kind(k, acc[k], all_lines) for k in range(3)]
    lines = all_lines[:NL]
    log = H.CountingLogger()
    with H.patched((T, "logger", log)):
        m = T.parse_data_from_chart_lines(tuple(kinds), iter(lines))
    got = [m[kinds[k]] for k in range(3)]
    want = [[], [], []]
    rejected = []
    for i in range(NL):
        for k in range(3):
            if acc[k][i]:
                want[k].append(i)
                break
        else:
            rejected.append(i)
    ok = len(log.warnings) == len(rejected)
    total = 0
    for k in range(3):
        ok = ok and len(got[k]) == len(want[k])
        if not ok:
            return done(False)
        total += len(got[k])
        for j, i in enumerate(want[k]):
            d = got[k][j]
            ok = ok and isinstance(d, _Datum) and d.kind == k and d.line is lines[i]
    ok = ok and total + len(log.warnings) == NL
    # every warning names its own line, once, in order
    for j, i in enumerate(rejected):
        ok = ok and lines[i] in log.warnings[j]
    # locality: the same section with the rejected lines deleted parses to the same data
    kept = [lines[i] for i in range(NL) if i not in rejected]
    log2 = H.CountingLogger()
    with H.patched((T, "logger", log2)):
        m2 = T.parse_data_from_chart_lines(tuple(kinds), kept)
    ok = ok and len(log2.warnings) == 0
    for k in range(3):
        g2 = m2[kinds[k]]
        ok = ok and len(g2) == len(got[k])
        if not ok:
            return done(False)
        for j in range(len(g2)):
            ok = ok and g2[j].line is got[k][j].line and g2[j].kind == got[k][j].kind
    return done(ok)


# ---------------------------------------------------------------------------------------------
# per-track wiring of the dispatcher (which list a recognised line ends up in)
# ---------------------------------------------------------------------------------------------
TRACK = H.part("VF_TRACK", 0)   # 0 instrument, 1 sync, 2 global events
W_LINES = ["w0", "w1", "w2"]


def _stub(kind_cls, k, accept, lines=None):
    lines = W_LINES if lines is None else lines

    def f(cls, line):
        if accept[lines.index(line)]:
            return _Datum(k, line)
        raise RegexNotMatchError("stub", line)
    return classmethod(f)


def track_dispatch_wiring(a0: bool, a1: bool, a2: bool, b0: bool, b1: bool, b2: bool,
                          c0: bool, c1: bool, c2: bool) -> bool:
    """
    pre: TRACK == 2 or all(int(x) + int(y) + int(z) <= 1 for (x, y, z) in [(a0, b0, c0), (a1, b1, c1), (a2, b2, c2)])
    post: _
    """
    acc = [[a0, a1, a2], [b0, b1, b2], [c0, c1, c2]]
    if TRACK == 0:
        # (N, S, E) recognisers are pairwise disjoint (RX) -> at most one accepts a line
        classes = [I.NoteEvent.ParsedData, I.StarPowerEvent.ParsedData, I.TrackEvent.ParsedData]
        call = lambda lines: I.InstrumentTrack._parse_data_from_chart_lines(lines)  # noqa: E731
        pos = [0, 1, 2]      # returned tuple: (note, star power, track)
    elif TRACK == 1:
        classes = [S.BPMEvent.ParsedData, S.TimeSignatureEvent.ParsedData, S.AnchorEvent.ParsedData]
        call = lambda lines: S.SyncTrack._parse_data_from_chart_lines(lines)  # noqa: E731
        pos = [1, 0, 2]      # returned tuple: (time signature, bpm, anchor)
    else:
        # priority lyric > section > text (C09: a 'lyric ...' text is a lyric event)
        classes = [G.LyricEvent.ParsedData, G.SectionEvent.ParsedData, G.TextEvent.ParsedData]
        call = lambda lines: G.GlobalEventsTrack._parse_data_from_chart_lines(lines)  # noqa: E731
        pos = [2, 1, 0]      # returned tuple: (text, section, lyric)
    saved = [c.__dict__.get("from_chart_line") for c in classes]
    log = H.CountingLogger()
    wl = fresh_lines(3)
    try:
        for k, c in enumerate(classes):
            c.from_chart_line = _stub(c, k, acc[k], wl)
        with H.patched((T, "logger", log)):
            out = call(list(wl))
    finally:
        for c, s in zip(classes, saved):
            if s is None:
                del c.from_chart_line
            else:
                c.from_chart_line = s
    want = [[], [], []]
    nrej = 0
    for i in range(3):
        for k in range(3):
            if acc[k][i]:
                want[k].append(i)
                break
        else:
            nrej += 1
    # which position of the returned tuple holds which kind is the implementation's own business
    # (its callers are checked at the level of the parsed tracks): every kind's data must form
    # exactly one of the returned lists, complete and in file order, and nothing else is returned
    ok = len(out) == 3 and len(log.warnings) == nrej
    used = []
    for k in range(3):
        found = None
        for ppos in range(3):
            lst = out[ppos]
            if ppos in used or len(lst) != len(want[k]):
                continue
            match = True
            for j, i in enumerate(want[k]):
                match = match and lst[j].kind == k and lst[j].line == wl[i]
            if match and found is None:
                found = ppos
        if found is None:
            return done(False)
        used.append(found)
    return done(ok)


# ---------------------------------------------------------------------------------------------
# C14 "skipped locally": the outcome for a line depends only on this call's kinds, not on what an
# earlier call (another section, another chart) decided about a line with the same text
# ---------------------------------------------------------------------------------------------


def dispatcher_history(a0: bool, a1: bool, b0: bool, b1: bool, c0: bool, c1: bool, d0: bool, d1: bool,
                       same_kinds: bool) -> bool:
    """
    post: _
    """
    lines = fresh_lines(2)
    acc1 = [[a0, a1, False, False], [b0, b1, False, False]]
    acc2 = [[c0, c1, False, False], [d0, d1, False, False]]
    kinds1 = [_mk_kind(k, acc1[k], lines) for k in range(2)]
    kinds2 = kinds1 if same_kinds else [_mk_kind(k, acc2[k], lines) for k in range(2)]
    if same_kinds:
        acc2 = acc1
    log = H.CountingLogger()
    with H.patched((T, "logger", log)):
        T.parse_data_from_chart_lines(tuple(kinds1), list(lines))      # earlier section / chart
        n1 = len(log.warnings)
        m = T.parse_data_from_chart_lines(tuple(kinds2), list(lines))
    ok = True
    nrej = 0
    for i in range(2):
        owner = None
        for k in range(2):
            if acc2[k][i] and owner is None:
                owner = k
        if owner is None:
            nrej += 1
        for k in range(2):
            present = any(d.line is lines[i] or d.line == lines[i] for d in m[kinds2[k]])
            ok = ok and present == (owner == k)
    ok = ok and len(log.warnings) - n1 == nrej
    return done(ok)


# ---------------------------------------------------------------------------------------------
# long sections: a run of lines of one kind, then a line several kinds would accept (round 4)
# ---------------------------------------------------------------------------------------------
RUNMAX = H.part("VF_RUNMAX", 8)
RUNK = H.part("VF_RUNK", -1)          # partition: 3*k1 + k2 fixed per process (-1: symbolic)


def dispatcher_runs(r1: int, k1: int, g: bool, r2: int, k2: int, x0: bool, x1: bool, x2: bool) -> bool:
    """
    pre: 0 <= r1 <= RUNMAX and 0 <= r2 <= 2 and 0 <= k1 <= 2 and 0 <= k2 <= 2
    pre: RUNK < 0 or 3 * k1 + k2 == RUNK
    post: _
    """
    # r1 lines only kind k1 accepts, optionally an unparsable line, r2 lines only kind k2 accepts, then
    # one line accepted by the kinds {x0, x1, x2} (overlaps allowed): whatever came before, every line
    # goes to the FIRST kind of the caller's order that accepts it, once, in file order
    n = r1 + (1 if g else 0) + r2 + 1
    all_lines = fresh_lines(RUNMAX + 5)[:]
    lines = all_lines[:n]
    acc = [[False] * len(all_lines) for _ in range(3)]
    pos = 0
    for _ in range(r1):
        acc[k1][pos] = True
        pos += 1
    if g:
        pos += 1
    for _ in range(r2):
        acc[k2][pos] = True
        pos += 1
    acc[0][pos], acc[1][pos], acc[2][pos] = x0, x1, x2
    kinds = [_mk_kind(k, acc[k], all_lines) for k in range(3)]
    log = H.CountingLogger()
    with H.patched((T, "logger", log)):
        m = T.parse_data_from_chart_lines(tuple(kinds), iter(lines))
    want = [[], [], []]
    nrej = 0
    for i in range(n):
        for k in range(3):
            if acc[k][i]:
                want[k].append(i)
                break
        else:
            nrej += 1
    ok = len(log.warnings) == nrej
    for k in range(3):
        got = m[kinds[k]]
        ok = ok and len(got) == len(want[k])
        if not ok:
            return done(False)
        for j, i in enumerate(want[k]):
            ok = ok and got[j].kind == k and got[j].line is lines[i]
    return done(ok)


# ---------------------------------------------------------------------------------------------
# file-scale sections: hundreds of lines of one kind before a line several kinds accept
# ---------------------------------------------------------------------------------------------
LONG_N = [5, 63, 64, 65, 127, 128, 129, 255, 256, 257, 511, 512, 1000, 1024, 4097]


def dispatcher_long(si: int, k1: int, x0: bool, x1: bool, x2: bool, tail: int) -> bool:
    """
    pre: 0 <= si < len(LONG_N) and 0 <= k1 <= 2 and 0 <= tail <= 2
    post: _
    """
    # LONG_N[si] lines only kind k1 accepts, then 1 + tail lines accepted by the kinds {x0, x1, x2}:
    # however long the section, each line goes to the first accepting kind of the caller's order
    n1 = H.pick(LONG_N, si)
    k1c = H.pick([0, 1, 2], k1)
    nt = H.pick([1, 2, 3], tail)
    with H.untraced():
        _RUN[0] += 1
        lines = ["L%d of long run %d" % (i, _RUN[0]) for i in range(n1 + nt)]
        index = {ln: i for i, ln in enumerate(lines)}
    xs = [x0, x1, x2]

    def mk(k):
        class Kind:
            @classmethod
            def from_chart_line(cls, line):
                i = index[line]
                if (i < n1 and k == k1c) or (i >= n1 and xs[k]):
                    return _Datum(k, line)
                raise RegexNotMatchError("stub-regex-%d" % k, line)
        Kind.__qualname__ = "Kind%d" % k
        return Kind
    xs = [True if x else False for x in xs]         # realised here: the dispatch itself runs natively
    kinds = [mk(k) for k in range(3)]
    log = H.CountingLogger()
    with H.untraced():
        with H.patched((T, "logger", log)):
            m = T.parse_data_from_chart_lines(tuple(kinds), iter(lines))
    first = None
    for k in range(3):
        if xs[k] and first is None:
            first = k
    ok = True
    for k in range(3):
        want = (n1 if k == k1c else 0) + (nt if first == k else 0)
        ok = ok and len(m[kinds[k]]) == want
    ok = ok and len(log.warnings) == (nt if first is None else 0)
    if ok and first is not None:
        got = m[kinds[first]]
        for j in range(nt):
            ok = ok and got[len(got) - nt + j].line is lines[n1 + j]
    return done(ok)
