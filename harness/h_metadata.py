"""CrossHair harness on chartparse.metadata.Metadata.from_chart_lines (C10 obligation 3)."""
from __future__ import annotations

import vf.h as H
import vf.tok as K
from vf.h import done

import chartparse.metadata as MD
from chartparse.exceptions import MissingRequiredField
from chartparse.metadata import Metadata, Player2Instrument

FIRST = H.part("VF_FIRST", -1)     # field id of the first line (-1: symbolic)
NLINES = H.part("VF_NLINES", 2)

# the 24 [Song] fields of the format, written out independently of the implementation (oracle)
FIELDS = [("Resolution", "resolution", "int", None), ("Offset", "offset", "int", 0),
          ("Player2", "player2", "p2", "BASS"), ("Difficulty", "difficulty", "int", 0),
          ("PreviewStart", "preview_start", "int", 0), ("PreviewEnd", "preview_end", "int", 0),
          ("Genre", "genre", "str", "rock"), ("MediaType", "media_type", "str", "cd"),
          ("Name", "name", "str", None), ("Artist", "artist", "str", None), ("Charter", "charter", "str", None),
          ("Album", "album", "str", None), ("Year", "year", "str", None),
          ("MusicStream", "music_stream", "str", None), ("GuitarStream", "guitar_stream", "str", None),
          ("RhythmStream", "rhythm_stream", "str", None), ("BassStream", "bass_stream", "str", None),
          ("DrumStream", "drum_stream", "str", None), ("Drum2Stream", "drum2_stream", "str", None),
          ("Drum3Stream", "drum3_stream", "str", None), ("Drum4Stream", "drum4_stream", "str", None),
          ("VocalStream", "vocal_stream", "str", None), ("KeysStream", "keys_stream", "str", None),
          ("CrowdStream", "crowd_stream", "str", None)]


def _patches():
    specs = MD._field_parsing_specs
    out = []
    for (pascal, snake, kind, default) in FIELDS:
        out.append((specs[snake], "regex_prog", K.StubProg(pascal, specs[snake].regex)))
    return out


def _mk_line(f, iv, sv, p2):
    pascal, snake, kind, default = FIELDS[f]
    K._SERIAL[0] += 1
    n = K._SERIAL[0]
    # the text carries the field's own `Name = ` skeleton (see vf.tok.TokLine)
    if kind == "int":
        return K.TokLine(pascal, (K.Digits(iv),), "  %s = %d" % (pascal, n)), iv
    if kind == "p2":
        return K.TokLine(pascal, ("rhythm" if p2 else "bass",), "  %s = %s" % (pascal, "rhythm" if p2 else "bass")), (Player2Instrument.RHYTHM if p2 else Player2Instrument.BASS)
    return K.TokLine(pascal, (sv,), '  %s = "value %d"' % (pascal, n)), sv


def metadata_fields(f0: int, f1: int, f2: int, i0: int, i1: int, i2: int, s0: str, s1: str, s2: str,
                    p0: bool, p1: bool, p2: bool, junk: bool) -> bool:
    """
    pre: all(0 <= f < 24 for f in [f0, f1, f2])
    pre: FIRST < 0 or f0 == FIRST
    pre: NLINES >= 3 or f2 == 0
    pre: i0 >= 0 and i1 >= 0 and i2 >= 0
    post: _
    """
    fs, iv, sv, pv = [f0, f1, f2][:NLINES], [i0, i1, i2], [s0, s1, s2], [p0, p1, p2]
    lines, vals = [], []
    for k in range(len(fs)):
        ln, v = _mk_line(fs[k], iv[k], sv[k], pv[k])
        lines.append(ln)
        vals.append(v)
    if junk:
        lines.insert(1, K.GARBAGE(0))       # an unrecognised line in between changes nothing
        fs = [fs[0], -1] + fs[1:]
        vals = [vals[0], None] + vals[1:]
    with H.patched(*_patches()):
        try:
            md = Metadata.from_chart_lines(iter(lines))
        except MissingRequiredField as e:
            return done(0 not in fs and e.field_name == "resolution")
    if 0 not in fs:
        return done(False)
    ok = True
    for fid, (pascal, snake, kind, default) in enumerate(FIELDS):
        got = getattr(md, snake)
        want_set = False
        want = None
        for k in range(len(fs)):
            if fs[k] == fid and not want_set:
                want, want_set = vals[k], True        # first matching line wins
        if want_set:
            if kind == "p2":
                ok = ok and got is want
            elif kind == "int":
                ok = ok and got == want
            else:
                ok = ok and isinstance(got, str) and got == want
        else:
            if kind == "p2":
                ok = ok and got is Player2Instrument.BASS
            elif default is None:
                ok = ok and got is None
            else:
                ok = ok and got == default
    return done(ok)


# ---------------------------------------------------------------------------------------------
# C10 on real lines: the shipped recognisers and decoders on texts assembled by the solver from a
# small token alphabet (quotes, blanks, '=', another field's marker, non-ASCII)
# ---------------------------------------------------------------------------------------------
TOKS = ['"', "a", " ", "=", "Offset = 7", "é", "Resolution = 9"]
STRF = H.part("VF_STRF", 8)      # which string field carries the value (index into FIELDS)


def _value(k0, k1, k2, n):
    v = ""
    for k in [k0, k1, k2][:n]:
        v = v + H.pick(TOKS, k)
    return v


NMAX = H.part("VF_NMAX", 2)
K0 = H.part("VF_K0", -1)


def metadata_real_lines(n: int, k0: int, k1: int, k2: int, first: bool, pad: bool, third: bool) -> bool:
    """
    pre: 1 <= n <= NMAX and all(0 <= k < len(TOKS) for k in [k0, k1, k2])
    pre: K0 < 0 or k0 == K0
    pre: not third or STRF != 12
    post: _
    """
    pascal, snake, kind, default = FIELDS[STRF]
    v = _value(k0, k1, k2, n)
    own = ("  " if pad else "") + pascal + ' = "' + v + '"' + ("  " if pad else "")
    res = "  Resolution = 192"
    off = "  Offset = 5"
    lines = [own, res, off] if first else [res, off, own]
    if third:
        lines.insert(1, '  Year = ", 2018"')
    md = Metadata.from_chart_lines(lines)
    a = getattr(md, snake) == v
    b = md.resolution == 192 and md.offset == 5
    c = snake == "year" or md.year == (", 2018" if third else None)
    d = md.player2 is Player2Instrument.BASS and md.difficulty == 0
    return done(a and b and c and d)
