"""CrossHair harnesses on chartparse.instrument (notes, sustains, HOPO, star power)."""
from __future__ import annotations

import vf.h as H
from datetime import timedelta as _td
from vf.h import AbsTime, done

import chartparse.instrument as I
import chartparse.tick
from chartparse.instrument import (
    HOPOState,
    InstrumentTrack,
    Note,
    NoteEvent,
    NoteTrackIndex,
    StarPowerData,
    StarPowerEvent,
)
from chartparse.tick import NoteDuration

NOTES = H.canonical_notes()          # the 32 lane combinations (P = open first)
NTI = {i: NoteTrackIndex(i) for i in range(8)}
NTI_LIST = [NTI[i] for i in range(8)]
PD = NoteEvent.ParsedData

PART = H.part("VF_PART", 0)
NPARTS = H.part("VF_NPARTS", 1)


def nti(i):
    """Index -> NoteTrackIndex by branching (keeps i symbolic until compared)."""
    if i == 0:
        return NTI_LIST[0]
    if i == 1:
        return NTI_LIST[1]
    if i == 2:
        return NTI_LIST[2]
    if i == 3:
        return NTI_LIST[3]
    if i == 4:
        return NTI_LIST[4]
    if i == 5:
        return NTI_LIST[5]
    if i == 6:
        return NTI_LIST[6]
    return NTI_LIST[7]


def mk_sp(start, length):
    return StarPowerEvent(tick=start, timestamp=AbsTime(0), sustain=length)


# ---------------------------------------------------------------------------------------------
# C05: one inductive step of the star-power cursor
# ---------------------------------------------------------------------------------------------
P = H.part("VF_P", 3)


def _sp_pre(P, starts, lens, cursor, prev_tick, tick):
    if not (0 <= prev_tick <= tick):
        return False
    for i in range(P):
        if lens[i] < 0 or starts[i] < 0:
            return False
        if i > 0 and starts[i - 1] > starts[i]:
            return False
    for i in range(P, len(starts)):
        if starts[i] != 0 or lens[i] != 0:
            return False
    if not (0 <= cursor < P):
        return False
    # invariant: every phrase before the cursor ended at or before the previous note's tick
    for j in range(P):
        if j < cursor and starts[j] + lens[j] > prev_tick:
            return False
    return True


def star_power_step(s0: int, l0: int, s1: int, l1: int, s2: int, l2: int, s3: int, l3: int,
                    cursor: int, prev_tick: int, tick: int) -> bool:
    """
    pre: _sp_pre(P, [s0, s1, s2, s3], [l0, l1, l2, l3], cursor, prev_tick, tick)
    post: _
    """
    starts, lens = [s0, s1, s2, s3][:P], [l0, l1, l2, l3][:P]
    phrases = [mk_sp(starts[i], lens[i]) for i in range(P)]
    data, new_cursor = NoteEvent._compute_star_power_data(
        tick, phrases, proximal_star_power_event_index=cursor)
    expect = None
    for j in range(P - 1, -1, -1):
        if starts[j] <= tick and tick < starts[j] + lens[j]:
            expect = j
    if expect is None:
        ok = data is None
    else:
        ok = isinstance(data, StarPowerData) and data.star_power_event_index == expect
    # the returned cursor re-establishes the invariant w.r.t. this note's tick, and is usable
    ok = ok and cursor <= new_cursor and new_cursor < P
    for j in range(P):
        if j < new_cursor and starts[j] + lens[j] > tick:
            ok = False
    return done(ok)


def star_power_empty(tick: int, cursor: int) -> bool:
    """
    pre: tick >= 0 and cursor >= 0
    post: _
    """
    data, c = NoteEvent._compute_star_power_data(tick, [], proximal_star_power_event_index=cursor)
    return done(data is None and c == 0)


def special_event_halfopen(start: int, length: int, tick: int) -> bool:
    """
    pre: start >= 0 and length >= 0 and tick >= 0
    post: _
    """
    e = mk_sp(start, length)
    ok = e.end_tick == start + length
    ok = ok and e.tick_is_after_event(tick) == (tick >= start + length)
    ok = ok and e.tick_is_during_event(tick) == (start <= tick < start + length)
    return done(ok)


# ---------------------------------------------------------------------------------------------
# C04: _compute_hopo_state
# ---------------------------------------------------------------------------------------------


def _pairs():
    mode = H.part("VF_PAIRS", 96)
    ns = NOTES
    if mode >= 1024:
        prs = [(a, b) for a in ns for b in ns]
    else:
        prs = []
        single = [n for n in ns if sum(n.value) == 1]
        chords = [n for n in ns if sum(n.value) > 1]
        for i, a in enumerate(ns):
            other_single = single[(i + 1) % len(single)] if single[(i + 1) % len(single)] is not a else single[(i + 2) % len(single)]
            chord = chords[i % len(chords)] if chords[i % len(chords)] is not a else chords[(i + 1) % len(chords)]
            prs += [(a, a), (a, other_single), (a, chord)]
    return prs[PART::NPARTS]


PAIRS = _pairs()


def _triplet_summary(resolution, note_duration):
    # K6 summary of chartparse.tick.note_duration_to_ticks for EIGHTH_TRIPLET; FK proves the live
    # function equal to this for 1 <= R <= 10^8.
    if note_duration is not NoteDuration.EIGHTH_TRIPLET:
        raise H.Poison("unexpected note duration %r" % (note_duration,))
    return (resolution + 1) // 3


def hopo_state(pi: int, R: int, prev_tick: int, gap: int, tap: bool, forced: bool, first: bool, psus: int = 0) -> bool:
    """
    pre: 0 <= pi < len(PAIRS)
    pre: R >= 1 and prev_tick >= 0 and gap >= 1 and psus >= 0
    post: _
    """
    note, pnote = PAIRS[pi]
    tick = prev_tick + gap
    prev = None
    if not first:
        prev = NoteEvent(tick=prev_tick, timestamp=AbsTime(0), end_timestamp=AbsTime(0),
                         note=pnote, hopo_state=HOPOState.STRUM, sustain=psus)      # the rule is start-to-start
    with H.patched((chartparse.tick, "note_duration_to_ticks", _triplet_summary)):
        try:
            got = NoteEvent._compute_hopo_state(R, tick, note, tap, forced, prev)
        except ValueError:
            # only a forced first note may be rejected (Moonscraper cannot produce one)
            return done(forced and first)
    # the rule of the statement, in integer arithmetic: gap <= round(R/3)  <=>  3*gap <= R+1
    if tap:
        want = HOPOState.TAP
    elif first:
        want = HOPOState.HOPO if forced else HOPOState.STRUM
    else:
        lanes = sum(note.value)
        natural = (lanes <= 1) and (note.value != pnote.value) and (3 * gap <= R + 1)
        want = HOPOState.HOPO if (natural != forced) else HOPOState.STRUM
    return done(got is want)


def hopo_twice(pi: int, R1: int, R2: int, gap: int, forced: bool) -> bool:
    """
    pre: 0 <= pi < len(PAIRS)
    pre: R1 >= 1 and R2 >= 1 and gap >= 1
    post: _
    """
    # the same pair of notes at the same distance judged at two resolutions in one process (two charts
    # parsed one after the other): each decision depends on ITS resolution only
    note, pnote = PAIRS[pi]
    ok = True
    with H.patched((chartparse.tick, "note_duration_to_ticks", _triplet_summary)):
        for R in (R1, R2, R1):
            prev = NoteEvent(tick=10, timestamp=AbsTime(0), end_timestamp=AbsTime(0), note=pnote, hopo_state=HOPOState.STRUM)
            got = NoteEvent._compute_hopo_state(R, 10 + gap, note, False, forced, prev)
            natural = (sum(note.value) <= 1) and (note.value != pnote.value) and (3 * gap <= R + 1)
            ok = ok and got is (HOPOState.HOPO if (natural != forced) else HOPOState.STRUM)
    return done(ok)


def _hopo_history(pi):
    """Native, in a fresh interpreter: the same note pair judged over a sequence of resolutions and
    distances (a process that parses charts of different resolutions one after the other)."""
    note, pnote = PAIRS[pi]
    ok = True
    for R in (192, 480, 100, 1, 2, 3, 960, 192, 480):
        for gap in (1, 2, 32, 33, 34, 64, 65, 66, 96, 160, 161, 320, 321):
            for forced in (False, True):
                prev = NoteEvent(tick=10, timestamp=_td(0), end_timestamp=_td(0), note=pnote, hopo_state=HOPOState.STRUM)
                got = NoteEvent._compute_hopo_state(R, 10 + gap, note, False, forced, prev)
                natural = (sum(note.value) <= 1) and (note.value != pnote.value) and (3 * gap <= R + 1)
                ok = ok and got is (HOPOState.HOPO if (natural != forced) else HOPOState.STRUM)
    return ok


def hopo_history(pi: int) -> bool:
    """
    pre: 0 <= pi < len(PAIRS)
    post: _
    """
    k = H.pick(list(range(len(PAIRS))), pi)
    return done(H.isolated("harness.h_instrument", "_hopo_history", k))


# ---------------------------------------------------------------------------------------------
# C03: sustains
# ---------------------------------------------------------------------------------------------
M = H.part("VF_M", 2)
FIRST_IDX = H.part("VF_FIRST", -1)   # partition: index of the first datum (-1: symbolic)
SECOND_IDX = H.part("VF_SECOND", -1)


def _sus_pre(M, idx, sus):
    for k in range(M):
        if not (0 <= idx[k] <= 7) or sus[k] < 0:
            return False
    for k in range(M, len(idx)):
        if idx[k] != 0 or sus[k] != 0:
            return False
    if FIRST_IDX >= 0 and idx[0] != FIRST_IDX:
        return False
    if SECOND_IDX >= 0 and M >= 2 and idx[1] != SECOND_IDX:
        return False
    lanes = 0
    opens = 0
    for k in range(M):
        if idx[k] <= 4:
            lanes += 1
            for j in range(k):
                if idx[j] == idx[k]:
                    return False  # one line per lane at a tick
        if idx[k] == 7:
            opens += 1            # the open-note line may come after flag lines (ascending index order)
    if opens and lanes:
        return False              # documented undefined behaviour: open note mixed with lane lines
    if opens > 1:
        return False              # one line per lane / open note at a tick
    return lanes + opens >= 1


def complex_sustain(i0: int, u0: int, i1: int, u1: int, i2: int, u2: int, i3: int, u3: int,
                    tick: int) -> bool:
    """
    pre: _sus_pre(M, [i0, i1, i2, i3], [u0, u1, u2, u3])
    pre: tick >= 0
    post: _
    """
    idx, sus = [i0, i1, i2, i3][:M], [u0, u1, u2, u3][:M]
    datas = [PD(tick=tick, note_track_index=nti(idx[k]), sustain=sus[k]) for k in range(M)]
    with H.patched(*H.unwrap_caches()):
        got = I.complex_sustain_from_parsed_datas(datas)
    # oracle: per-lane written length
    lane = [None] * 5
    open_len = None
    for k in range(M):
        if idx[k] <= 4:
            lane[idx[k]] = sus[k]
        elif idx[k] == 7:
            open_len = sus[k]
    if open_len is not None:
        return done(type(got) is not tuple and got == open_len)
    present = [x for x in lane if x is not None]
    agree = True
    for x in present:
        if x != present[0]:
            agree = False
    if agree:
        ok = (not isinstance(got, tuple)) and got == present[0]
    else:
        ok = isinstance(got, tuple) and len(got) == 5
        if ok:
            for j in range(5):
                if lane[j] is None:
                    ok = ok and got[j] is None
                else:
                    ok = ok and got[j] is not None and got[j] == lane[j]
    # derived quantities on the same value
    if ok:
        longest = NoteEvent._longest_sustain(got)
        mx = present[0]
        for x in present:
            if x > mx:
                mx = x
        ok = longest == mx and NoteEvent._end_tick(tick, longest) == tick + mx
    return done(ok)


def note_from_datas(i0: int, i1: int, i2: int, i3: int, tick: int) -> bool:
    """
    pre: all(0 <= x <= 7 for x in [i0, i1, i2, i3][:M]) and all(x == 0 for x in [i0, i1, i2, i3][M:])
    pre: FIRST_IDX < 0 or i0 == FIRST_IDX
    pre: tick >= 0
    post: _
    """
    idx = [i0, i1, i2, i3][:M]
    datas = [PD(tick=tick, note_track_index=nti(idx[k]), sustain=0) for k in range(M)]
    got = Note.from_parsed_datas(datas)
    want = [0] * 5
    for x in idx:
        if x <= 4:
            want[x] = 1
    ok = isinstance(got, Note) and tuple(got.value) == tuple(want)
    if want == [0] * 5:
        ok = ok and got is Note.OPEN
    return done(ok)


def longest_and_end(kind: bool, n: int, p0: bool, p1: bool, p2: bool, p3: bool, p4: bool,
                    a0: int, a1: int, a2: int, a3: int, a4: int, tick: int) -> bool:
    """
    pre: n >= 0 and tick >= 0
    pre: all(x >= 0 for x in [a0, a1, a2, a3, a4])
    pre: kind or p0 or p1 or p2 or p3 or p4
    post: _
    """
    if kind:
        sustain = n
        mx = n
    else:
        pres, vals = [p0, p1, p2, p3, p4], [a0, a1, a2, a3, a4]
        sustain = tuple(vals[j] if pres[j] else None for j in range(5))
        mx = None
        for j in range(5):
            if pres[j] and (mx is None or vals[j] > mx):
                mx = vals[j]
    ev = NoteEvent(tick=tick, timestamp=AbsTime(0), end_timestamp=AbsTime(0), note=Note.G,
                   hopo_state=HOPOState.STRUM, sustain=sustain)
    ok = ev.longest_sustain == mx and ev.end_tick == tick + mx
    ok = ok and NoteEvent._longest_sustain(sustain) == mx
    return done(ok)


def last_note_end(n: int, e0: int, e1: int, e2: int, e3: int) -> bool:
    """
    pre: 0 <= n <= 4
    post: _
    """
    ends = [e0, e1, e2, e3][:n]
    notes = [NoteEvent(tick=i, timestamp=AbsTime(0), end_timestamp=AbsTime(ends[i]), note=Note.G,
                       hopo_state=HOPOState.STRUM) for i in range(n)]
    tr = InstrumentTrack(instrument=I.Instrument.GUITAR, difficulty=I.Difficulty.EXPERT,
                         note_events=notes, star_power_events=[], track_events=[])
    got = tr.last_note_end_timestamp
    if n == 0:
        return done(got is None)
    mx = ends[0]
    for x in ends:
        if x > mx:
            mx = x
    return done(got is not None and got.us == mx)


# ---------------------------------------------------------------------------------------------
# C02: grouping loop with a recording NoteEvent.from_parsed_data
# ---------------------------------------------------------------------------------------------
ND = H.part("VF_ND", 4)


class _Sentinel:
    def __init__(self, j):
        self.j = j


def grouping_loop(t0: int, t1: int, t2: int, t3: int, t4: int, t5: int) -> bool:
    """
    pre: 0 <= t0 <= t1 <= t2 <= t3 <= t4 <= t5
    post: _
    """
    ticks = [t0, t1, t2, t3, t4, t5][:ND]
    datas = [PD(tick=ticks[k], note_track_index=NTI_LIST[k % 5], sustain=k) for k in range(ND)]
    sp_events = [object()]
    bpm_events = object()
    calls = []

    def rec(cls, ds, prev_event, star_power_events, bpm_ev, proximal_bpm_event_index=0,
            star_power_event_index=0):
        j = len(calls)
        calls.append((list(ds), prev_event, star_power_events, bpm_ev, proximal_bpm_event_index,
                      star_power_event_index))
        return _Sentinel(j), 100 + j, 200 + j

    saved = NoteEvent.__dict__["from_parsed_data"]
    try:
        NoteEvent.from_parsed_data = classmethod(rec)
        out = InstrumentTrack._build_note_events_from_data(datas, sp_events, bpm_events)
    finally:
        NoteEvent.from_parsed_data = saved
    # oracle: maximal runs of equal ticks
    groups = []
    for k in range(ND):
        if k > 0 and ticks[k] == ticks[k - 1]:
            groups[-1].append(k)
        else:
            groups.append([k])
    ok = len(calls) == len(groups) and len(out) == len(groups)
    if not ok:
        return done(False)
    for j, g in enumerate(groups):
        ds, prev, spe, be, bc, sc = calls[j]
        ok = ok and len(ds) == len(g)
        if not ok:
            return done(False)
        for a, k in enumerate(g):
            ok = ok and ds[a] is datas[k]
        ok = ok and spe is sp_events and be is bpm_events
        if j == 0:
            ok = ok and prev is None and bc == 0 and sc == 0
        else:
            # a cursor is an optimisation: any value not beyond the one returned for the previous
            # group is valid (0 is always valid)
            ok = ok and prev is out[j - 1] and 0 <= bc <= 100 + (j - 1) and 0 <= sc <= 200 + (j - 1)
        ok = ok and isinstance(out[j], _Sentinel) and out[j].j == j
    return done(ok)


# ---------------------------------------------------------------------------------------------
# NoteEvent.from_parsed_data dataflow (C01 obl.4, C03 obl.3, C04 obl.3, C05 obl.3, C11 obl.3)
# ---------------------------------------------------------------------------------------------
class RecTempo:
    """Duck-typed tempo map: records queries, answers from a pool of symbolic values (S5)."""

    def __init__(self, resolution, pool):
        self.resolution = resolution
        self.pool = list(pool)
        self.calls = []

    def timestamp_at_tick(self, tick, *, start_iteration_index=0):
        us, idx = self.pool.pop(0)
        self.calls.append((tick, start_iteration_index))
        return AbsTime(us), idx


class FuncTempo:
    """Duck-typed *functional* tempo map with the real one's contract (S5): two segments split at
    `tb`; time and governing index are functions of the tick; a hint beyond the governing index or
    a negative tick is rejected with ValueError.  Oracles compare stored values with F/G, so any
    implementation that asks valid questions (whatever hints, however many calls) passes."""

    def __init__(self, resolution, tb):
        self.resolution = resolution
        self.tb = tb
        self.calls = []

    def G(self, tick):
        return 1 if tick >= self.tb else 0

    def F(self, tick):
        if tick < self.tb:
            return 7 * tick + 3
        return 7 * self.tb + 3 + 13 * (tick - self.tb)

    def timestamp_at_tick(self, tick, *, start_iteration_index=0):
        self.calls.append((tick, start_iteration_index))
        if tick < 0 or start_iteration_index > self.G(tick) or start_iteration_index < 0:
            raise ValueError("hint beyond the governing tempo event (or negative tick)")
        return AbsTime(self.F(tick)), self.G(tick)

    def timestamp_at_tick_no_optimize_return(self, tick):
        return self.timestamp_at_tick(tick)[0]


import os as _os2  # noqa: E402

IDX2 = [int(x) for x in _os2.environ.get("VF_IDX2", "0,1").split(",")]    # concrete indices of the two lines


def note_event_dataflow(u0: int, u1: int, tick: int, gap: int, R: int, tb: int,
                        hint_in: int, sp_s: int, sp_l: int, has_prev: bool, pchord: bool) -> bool:
    """
    pre: _sus_pre(2, [IDX2[0], IDX2[1], 0, 0], [u0, u1, 0, 0])
    pre: tick >= 0 and tb > 0 and gap >= 1 and R >= 1 and sp_s >= 0 and sp_l >= 0
    pre: 0 <= hint_in <= 1 and (hint_in == 0 or tick >= tb)
    pre: has_prev or 5 not in IDX2
    post: _
    """
    i0, i1 = IDX2
    pni = 1 if pchord else 0
    # one note event built from two lines through the real NoteEvent.from_parsed_data and its real
    # collaborators; only the tempo map is a functional stand-in (FuncTempo).  Everything is compared
    # with the property's own definitions - nothing about how the implementation gets there.
    idx, sus = [i0, i1], [u0, u1]
    datas = [PD(tick=tick, note_track_index=nti(idx[k]), sustain=sus[k]) for k in range(2)]
    tempo = FuncTempo(R, tb)
    phrases = [mk_sp(sp_s, sp_l)]
    prev = None
    pnote = [Note.G, Note.RY, Note.OPEN][pni]
    if has_prev:
        prev = NoteEvent(tick=tick - gap, timestamp=AbsTime(0), end_timestamp=AbsTime(0), note=pnote,
                         hopo_state=HOPOState.STRUM)
        if tick - gap < 0:
            return True
    with H.patched(*(H.unwrap_caches() + [(chartparse.tick, "note_duration_to_ticks", _triplet_summary)])):
        ev, bc, sc = NoteEvent.from_parsed_data(datas, prev, phrases, tempo,
                                                proximal_bpm_event_index=hint_in, star_power_event_index=0)
    lanes = [0] * 5
    lane_len = [None] * 5
    open_len = None
    for k in range(2):
        if idx[k] <= 4:
            lanes[idx[k]] = 1
            lane_len[idx[k]] = sus[k]
        elif idx[k] == 7:
            open_len = sus[k]
    mx = open_len
    for x in lane_len:
        if x is not None and (mx is None or x > mx):
            mx = x
    ok = ev.tick == tick and tuple(ev.note.value) == tuple(lanes)
    ok = ok and ev.timestamp.us == tempo.F(tick) and ev.end_timestamp.us == tempo.F(tick + mx)
    ok = ok and ev.longest_sustain == mx and ev.end_tick == tick + mx
    # cursors handed back are usable for any later note
    ok = ok and 0 <= bc <= tempo.G(tick) and 0 <= sc <= 0
    # strum / HOPO / tap by the rule of C04
    tap = idx[0] == 6 or idx[1] == 6
    forced = idx[0] == 5 or idx[1] == 5
    if tap:
        want = HOPOState.TAP
    elif not has_prev:
        want = HOPOState.STRUM
    else:
        natural = sum(lanes) <= 1 and tuple(lanes) != tuple(pnote.value) and 3 * gap <= R + 1
        want = HOPOState.HOPO if natural != forced else HOPOState.STRUM
    ok = ok and ev.hopo_state is want
    # star power by the half-open rule of C05
    if sp_s <= tick and tick < sp_s + sp_l:
        ok = ok and ev.star_power_data is not None and ev.star_power_data.star_power_event_index == 0
    else:
        ok = ok and ev.star_power_data is None
    return done(ok)


# ---------------------------------------------------------------------------------------------
# C02: all 32 lane subsets (up to five lane lines at one tick), any line order, any flags
# ---------------------------------------------------------------------------------------------


def note_subsets(g: bool, r: bool, y: bool, b: bool, o: bool, tap: bool, forced: bool, rev: bool, rot: int,
                 tick: int) -> bool:
    """
    pre: 0 <= rot <= 4 and tick >= 0
    post: _
    """
    lanes = [g, r, y, b, o]
    idxs = [i for i in range(5) if lanes[i]]
    if not idxs:
        idxs = [7]                   # a lone open-note line
    if rev:
        idxs = idxs[::-1]
    k = rot % len(idxs)
    idxs = idxs[k:] + idxs[:k]
    if idxs[0] != 7:
        if tap:
            idxs.insert(1, 6)
        if forced:
            idxs.append(5)
    elif tap:
        idxs.append(6)
    datas = [PD(tick=tick, note_track_index=NTI_LIST[i], sustain=0) for i in idxs]
    got = Note.from_parsed_datas(datas)
    want = tuple(1 if lanes[i] else 0 for i in range(5))
    ok = isinstance(got, Note) and tuple(got.value) == want
    if want == (0, 0, 0, 0, 0):
        ok = ok and got is Note.OPEN
    return done(ok)


def sustain_subsets(g: bool, r: bool, y: bool, b: bool, o: bool, base: int, odd: int, delta: int, rev: bool,
                    tick: int) -> bool:
    """
    pre: base >= 0 and delta >= 0 and 0 <= odd <= 5 and tick >= 0
    pre: g or r or y or b or o
    post: _
    """
    # every lane subset; all lanes share `base` except lane `odd` (if active; odd == 5: none) which is
    # base + delta - so equal / one-different / (delta == 0) equal-again are all solver cases
    lanes = [g, r, y, b, o]
    idxs = [i for i in range(5) if lanes[i]]
    if rev:
        idxs = idxs[::-1]
    lens = {i: (base + delta if i == odd else base) for i in idxs}
    datas = [PD(tick=tick, note_track_index=NTI_LIST[i], sustain=lens[i]) for i in idxs]
    datas.append(PD(tick=tick, note_track_index=NTI_LIST[6], sustain=0))      # a flag line never contributes
    with H.patched(*H.unwrap_caches()):
        got = I.complex_sustain_from_parsed_datas(datas)
    differ = odd in lens and delta > 0 and len(idxs) > 1
    if not differ:
        one = lens[idxs[0]]
        ok = (not isinstance(got, tuple)) and got == one
        mx = one
    else:
        ok = isinstance(got, tuple) and len(got) == 5
        if not ok:
            return done(False)
        for i in range(5):
            if i in lens:
                ok = ok and got[i] is not None and got[i] == lens[i]
            else:
                ok = ok and got[i] is None
        mx = base + delta
    ok = ok and NoteEvent._longest_sustain(got) == mx
    return done(ok)


# ---------------------------------------------------------------------------------------------
# C02 at file scale: thousands of note lines; a same-tick pair at a solver-chosen position
# ---------------------------------------------------------------------------------------------
BIGN = H.part("VF_BIGN", 8200)
BOUNDARIES = [1, 63, 64, 255, 256, 1023, 1024, 2047, 2048, 4095, 4096, 8191, 8192]


class _CheapDatum:
    __slots__ = ("tick", "k")

    def __init__(self, tick, k):
        self.tick, self.k = tick, k


def grouping_loop_large(bi: int, width: int) -> bool:
    """
    pre: 0 <= bi < len(BOUNDARIES) and 2 <= width <= 3
    post: _
    """
    # BIGN data with distinct ticks except one run of `width` equal ticks that ends / straddles the
    # solver-chosen position (sizes where batching or windowing schemes typically split)
    pos = H.pick(BOUNDARIES, bi)
    width = H.pick([2, 3], width - 2)
    with H.untraced():
        ticks, t = [], 0
        for k in range(BIGN):
            if not (pos - 1 < k <= pos - 1 + (width - 1)):
                t += 1
            ticks.append(t)
        datas = [_CheapDatum(ticks[k], k) for k in range(BIGN)]
        calls = []

        def rec(cls, ds, prev_event, star_power_events, bpm_ev, proximal_bpm_event_index=0, star_power_event_index=0):
            calls.append([d.k for d in ds])
            return _Sentinel(len(calls) - 1), 0, 0

        saved = NoteEvent.__dict__["from_parsed_data"]
        try:
            NoteEvent.from_parsed_data = classmethod(rec)
            out = InstrumentTrack._build_note_events_from_data(datas, [], object())
        finally:
            NoteEvent.from_parsed_data = saved
        want, k = [], 0
        while k < BIGN:
            j = k
            while j + 1 < BIGN and ticks[j + 1] == ticks[k]:
                j += 1
            want.append(list(range(k, j + 1)))
            k = j + 1
        return done(calls == want and len(out) == len(want))
