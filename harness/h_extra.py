"""Harnesses added after the second round of seeded changes (real-line sequences, repeated queries)."""
from __future__ import annotations

import io

import vf.h as H
from vf.h import AbsTime, done

import chartparse.chart as C
import chartparse.globalevents as G
import chartparse.sync as S
import chartparse.track as T
from chartparse.chart import Chart
from chartparse.instrument import Difficulty, HOPOState, Instrument, InstrumentTrack, Note, NoteEvent
from chartparse.sync import BPMEvent, BPMEvents
from datetime import timedelta

# ---------------------------------------------------------------------------------------------
# C15 on real lines: sequences (with exact duplicates) of tempo / signature lines
# ---------------------------------------------------------------------------------------------
SYNC_SHAPES = [("  0 = B 120000", ("B", 0, 120000)), ("  0 = B 120000", ("B", 0, 120000)), ("  384 = B 60000", ("B", 384, 60000)),
               ("  384 = B 60000", ("B", 384, 60000)), ("  384 = B 0", ("B", 384, 0)), ("  100 = B 90500", ("B", 100, 90500)),
               ("  0 = TS 4", ("TS", 0)), ("  96 = TS 3 3", ("TS", 96)), ("  500 = B 000", ("B", 500, 0)), ("  0 = B 0", ("B", 0, 0)),
               ("  7 = A 1000", ("A", 7)), ("  garbage", ("?",))]
NSYNC = H.part("VF_NSYNC", 3)
_XRUN = [0]


def _pad():
    """Leading blanks unique to this harness invocation (recognisers allow any blank padding): keeps
    explored paths independent of state a mutated implementation may keep per line text."""
    _XRUN[0] += 1
    return " " * (2 + _XRUN[0] % 89) + "\t" * (_XRUN[0] // 89 % 7)

SK0 = H.part("VF_K0", -1)


def sync_real_lines(k0: int, k1: int, k2: int, k3: int, R: int) -> bool:
    """
    pre: all(0 <= k < len(SYNC_SHAPES) for k in [k0, k1, k2, k3][:NSYNC]) and all(k == 0 for k in [k0, k1, k2, k3][NSYNC:])
    pre: SK0 < 0 or k0 == SK0
    pre: 0 <= R <= 2
    post: _
    """
    # real recognisers on every sequence of NSYNC lines from the shapes above, resolution in {-192, 0, 192}
    res = H.pick([192, 0, -192], R)
    picks = [H.pick(SYNC_SHAPES, k) for k in [k0, k1, k2, k3][:NSYNC]]
    pad = _pad()
    lines = [pad + p[0].strip() for p in picks]
    bpms = [p[1] for p in picks if p[1][0] == "B"]
    tss = [p[1] for p in picks if p[1][0] == "TS"]
    good = res > 0 and len(bpms) >= 1 and bpms[0][1] == 0
    for i in range(1, len(bpms)):
        good = good and bpms[i - 1][1] < bpms[i][1]
    for i in range(len(bpms) - 1):
        good = good and bpms[i][2] != 0               # a zero tempo followed by another tempo has no duration
    good = good and len(tss) >= 1 and tss[0][1] == 0
    if good:
        # every time signature is governed by a positive tempo
        for ts in tss:
            g = 0
            for i in range(len(bpms)):
                if bpms[i][1] <= ts[1]:
                    g = i
            good = good and bpms[g][2] != 0
        for i in range(1, len(tss)):
            # signatures are looked up with the previous one's hint: an earlier tick in an earlier
            # tempo segment is rejected (C11); keep the oracle to sorted signatures
            if tss[i - 1][1] > tss[i][1]:
                return True
    with H.patched((T, "logger", H.CountingLogger())):
        try:
            st = S.SyncTrack.from_chart_lines(res, lines)
        except ValueError:
            return done(not good)
    if not good:
        return done(False)
    ok = len(st.bpm_events) == len(bpms) and len(st.time_signature_events) == len(tss)
    for i in range(len(bpms)):
        ok = ok and st.bpm_events[i].tick == bpms[i][1] and st.bpm_events[i].bpm == bpms[i][2] / 1000
    return done(ok)


# ---------------------------------------------------------------------------------------------
# C09 on real lines: sequences (with exact duplicates) of global event lines
# ---------------------------------------------------------------------------------------------
GE_SHAPES = [('  0 = E "phrase_start"', ("TXT", 0, "phrase_start")), ('  0 = E "phrase_start"', ("TXT", 0, "phrase_start")),
             ('  0 = E "section Intro 1"', ("SEC", 0, "Intro 1")), ('  0 = E "section Intro 1"', ("SEC", 0, "Intro 1")),
             ('  96 = E "lyric la"', ("LYR", 96, "la")), ('  96 = E "lyric"', ("TXT", 96, "lyric")),
             ('  96 = E "section"', ("TXT", 96, "section")), ('  96 = E "lyric say "hi" now"', ("LYR", 96, 'say "hi" now')),
             ('  96 = E "crowd "x" loud"', ("?",)), ("  96 = E solo", ("?",)), ('  200 = E "lyrics_on"', ("TXT", 200, "lyrics_on")),
             ('  200 = E "section é ü"', ("SEC", 200, "é ü"))]
NGE = H.part("VF_NGE", 3)


def global_real_lines(k0: int, k1: int, k2: int, k3: int) -> bool:
    """
    pre: all(0 <= k < len(GE_SHAPES) for k in [k0, k1, k2, k3][:NGE]) and all(k == 0 for k in [k0, k1, k2, k3][NGE:])
    pre: SK0 < 0 or k0 == SK0
    post: _
    """
    picks = [H.pick(GE_SHAPES, k) for k in [k0, k1, k2, k3][:NGE]]
    pad = _pad()
    lines = [pad + p[0].strip() for p in picks]
    want = {"TXT": [], "SEC": [], "LYR": []}
    nrej = 0
    sorted_ok = True
    last = 0
    for p in picks:
        if p[1][0] == "?":
            nrej += 1
        else:
            want[p[1][0]].append((p[1][1], p[1][2]))
    be = BPMEvents(events=[BPMEvent(tick=0, timestamp=timedelta(0), bpm=120.0)], resolution=192)
    log = H.CountingLogger()
    with H.patched((T, "logger", log)):
        g = G.GlobalEventsTrack.from_chart_lines(lines, be)
    got = {"TXT": g.text_events, "SEC": g.section_events, "LYR": g.lyric_events}
    ok = len(log.warnings) == nrej
    for kind in ("TXT", "SEC", "LYR"):
        ok = ok and [(e.tick, e.value) for e in got[kind]] == want[kind]
    return done(ok)


# ---------------------------------------------------------------------------------------------
# C16: two rate queries on one chart (two tracks with different last-note ends)
# ---------------------------------------------------------------------------------------------
class _Sent:
    def __init__(self, kind, **kw):
        self.kind = kind
        self.__dict__.update(kw)


class FuncMap:
    """Functional stand-in tempo map: time(tick) = 7*tick + 3 us (strictly increasing); negative ticks
    are rejected like the real one.  Any implementation that asks about the right ticks - however
    often, cached or not - gets consistent answers."""

    def __init__(self):
        self.calls = []

    @staticmethod
    def F(tick):
        return 7 * tick + 3

    def timestamp_at_tick_no_optimize_return(self, tick):
        self.calls.append(tick)
        if tick < 0:
            raise ValueError("negative tick")
        return AbsTime(self.F(tick))

    def timestamp_at_tick(self, tick, *, start_iteration_index=0):
        return self.timestamp_at_tick_no_optimize_return(tick), 0


def nps_two_tracks(form: int, a: int, b: int, endA: int, endB: int, first_b: bool) -> bool:
    """
    pre: 0 <= form <= 5 and a >= 0 and b >= 0
    pre: endA >= 10 and endB >= 10
    post: _
    """
    def track(ins, end):
        notes = [NoteEvent(tick=0, timestamp=AbsTime(10), end_timestamp=AbsTime(end), note=Note.G, hopo_state=HOPOState.STRUM)]
        return InstrumentTrack(instrument=ins, difficulty=Difficulty.EXPERT, note_events=notes, star_power_events=[], track_events=[])
    tempo = FuncMap()
    tracks = {Instrument.GUITAR: {Difficulty.EXPERT: track(Instrument.GUITAR, endA)},
              Instrument.BASS: {Difficulty.EXPERT: track(Instrument.BASS, endB)}}
    chart = Chart(_Sent("meta", resolution=192), _Sent("glob"), _Sent("sync", bpm_events=tempo), tracks)
    order = [(Instrument.BASS, endB), (Instrument.GUITAR, endA)] if first_b else [(Instrument.GUITAR, endA), (Instrument.BASS, endB)]
    ok = True
    with H.patched((C, "timedelta", H.TD)):
        for (ins, end) in order:
            if form == 0:
                args, s_us, e_us = (), 0, end
            elif form == 1:
                args, s_us, e_us = (a,), FuncMap.F(a), end
            elif form == 2:
                args, s_us, e_us = (a, b), FuncMap.F(a), FuncMap.F(b)
            elif form == 3:
                args, s_us, e_us = (AbsTime(a),), a, end
            elif form == 4:
                args, s_us, e_us = (AbsTime(a), AbsTime(b)), a, b
            else:
                args, s_us, e_us = (None, b), 0, FuncMap.F(b)
            try:
                got = chart.notes_per_second(ins, Difficulty.EXPERT, *args)
            except ValueError:
                ok = ok and e_us - s_us <= 0
                continue
            if e_us - s_us <= 0:
                return done(False)
            cnt = 1 if (s_us <= 10 and 10 <= e_us) else 0
            ok = ok and isinstance(got, H.Rate) and got.num == cnt and got.us == e_us - s_us
    return done(ok)


# ---------------------------------------------------------------------------------------------
# C18: events at any time inside the platform timedelta range render (CrossHair's own timedelta)
# ---------------------------------------------------------------------------------------------
import chartparse.instrument as I  # noqa: E402

BIG = H.part("VF_BIG", 0)
BIGS = [0, 1, 999999, 10**6, 86399999999, 86400 * 10**6, 3 * 10**17, 315537897599999999, 315537897600000000,
        4 * 10**17, 86399999999999999999]


def render_event_times(k: int, kind: int) -> bool:
    """
    pre: 0 <= k < len(BIGS) and 0 <= kind <= 2
    post: _
    """
    # representative instants up to the platform maximum (999999999 days), incl. the last microsecond
    # of year 9999 counted from datetime.min and the first one after it
    us = H.pick(BIGS, k)
    kind = H.pick([0, 1, 2], kind)
    with H.untraced():      # concrete on every path; use the interpreter's own datetime arithmetic
        return done(_render_event(us, kind))


def _render_event(us, kind):
    ts = timedelta(microseconds=us)
    if kind == 0:
        ev = I.TrackEvent(tick=99999999, timestamp=ts, value="x")
    elif kind == 1:
        ev = S.BPMEvent(tick=99999999, timestamp=ts, bpm=0.001)
    else:
        ev = NoteEvent(tick=99999999, timestamp=ts, end_timestamp=ts, note=Note.G, hopo_state=HOPOState.STRUM)
    s, r = str(ev), repr(ev)
    return isinstance(s, str) and len(s) > 0 and isinstance(r, str)


# ---------------------------------------------------------------------------------------------
# C12 / C01: anchors are data, they never move tempo-map times
# ---------------------------------------------------------------------------------------------
import vf.tok as K  # noqa: E402
from harness.h_integrated import env  # noqa: E402
from vf.h import Clock  # noqa: E402


def anchors_do_not_move_time(t1: int, a_us: int, q: int, at_first: bool) -> bool:
    """
    pre: t1 > 0 and a_us >= 0 and q >= 0
    post: _
    """
    # an A line at a B tick (tick 0 or t1) with an arbitrary microsecond value
    a_tick = 0 if at_first else t1
    lines = [K.TS(0, 4), K.B(0, "120000"), K.B(t1, "60500"), K.A(a_tick, a_us), K.TS(t1, 3)]
    with env(Clock("linear", mult={120.0: 5, 60.5: 11})):
        st = S.SyncTrack.from_chart_lines(192, lines)
        tq = st.bpm_events.timestamp_at_tick_no_optimize_return(q)
    want_q = 5 * q if q < t1 else 5 * t1 + 11 * (q - t1)
    ok = st.bpm_events[0].timestamp.us == 0 and st.bpm_events[1].timestamp.us == 5 * t1
    ok = ok and st.time_signature_events[0].timestamp.us == 0 and st.time_signature_events[1].timestamp.us == 5 * t1
    ok = ok and tq.us == want_q and len(st.anchor_events) == 1 and st.anchor_events[0].timestamp.us == a_us
    return done(ok)


# ---------------------------------------------------------------------------------------------
# C01: chartparse.time.add is exact timedelta addition (CrossHair's own symbolic timedelta)
# ---------------------------------------------------------------------------------------------
import chartparse.time as TM  # noqa: E402

_OTHERS = [0.0, 0.5, 1.25, 0.000001, 59.999999, 86399.5, 100000.25, 123456.789]


_STAMPS = [timedelta(0), timedelta(seconds=1.5), timedelta(seconds=86399, microseconds=999999), timedelta(days=1, seconds=5),
           timedelta(days=3, microseconds=7), timedelta(days=11, seconds=49600, microseconds=500000)]


def time_add_unit(si: int, oi: int, as_td: bool) -> bool:
    """
    pre: 0 <= si < len(_STAMPS) and 0 <= oi < len(_OTHERS)
    post: _
    """
    # representative stamps (sub-second, just below a day, several days) x float / timedelta offsets;
    # symbolic timedelta fields do not terminate in this CrossHair version (565 s, inconclusive)
    ts, other = H.pick(_STAMPS, si), H.pick(_OTHERS, oi)
    with H.untraced():
        o_td = timedelta(seconds=other)
        got = TM.add(ts, o_td if as_td else other)
        return done(got == ts + o_td and type(got) is timedelta)


# ---------------------------------------------------------------------------------------------
# Round-3 additions
# ---------------------------------------------------------------------------------------------
from fractions import Fraction  # noqa: E402

import chartparse.metadata as MDM  # noqa: E402
import chartparse.tick as TK  # noqa: E402
from chartparse.exceptions import MissingRequiredField  # noqa: E402
from chartparse.metadata import Metadata, Player2Instrument  # noqa: E402

_KCASES = [(1, 120.0, 192), (1, 120.0, 480), (384, 120.0, 192), (384, 60.5, 192), (7, 128.2, 192), (100000, 64.1, 1),
           (1, 1000000.0, 100000), (12345, 129.7, 480), (5, 0.001, 1), (99999999, 1.001, 3)]


def kernel_sequence(k1: int, k2: int) -> bool:
    """
    pre: 0 <= k1 < len(_KCASES) and 0 <= k2 < len(_KCASES)
    post: _
    """
    # the REAL kernel, natively, twice in a row (solver-chosen arguments incl. same tempo with another
    # resolution, tempos whose thousandths are not exactly representable): each result within the K1
    # bound of the exact value whatever was computed before
    i1, i2 = H.pick(list(range(len(_KCASES))), k1), H.pick(list(range(len(_KCASES))), k2)
    return done(H.isolated("harness.h_extra", "_kernel_sequence", i1, i2))     # each history in a fresh interpreter


def _kernel_sequence(i1, i2):
    ok = True
    for (d, bpm, r) in (_KCASES[i1], _KCASES[i2]):
        n = round(bpm * 1000)
        exact = Fraction(60000 * d, n * r)
        got = Fraction(TK.seconds_from_ticks_at_bpm(d, bpm, r))
        ok = ok and abs(got - exact) <= exact / 2**50
    return ok


def bpm_event_dataflow_uf(prev_tick: int, tick: int, prev_us: int, prev_idx: int, u: int) -> bool:
    """
    pre: 0 <= prev_tick < tick and u >= 0
    post: _
    """
    # arbitrary (monotone-UF) clock: the segment may last 0 us (sub-microsecond ticks)
    import harness.h_sync as HS
    data = BPMEvent.ParsedData(tick=tick, raw_bpm="120000")
    prev = BPMEvent(tick=prev_tick, timestamp=AbsTime(prev_us), bpm=HS.BPMS[1], _proximal_bpm_event_index=prev_idx)
    clk = Clock("monotone", pool=[u])
    with H.abstract_time(clk):
        ev = BPMEvent.from_parsed_data(data, prev, 192)
    if not clk.assume_ok:
        return True
    return done(ev.timestamp.us == prev_us + u and ev.tick == tick and ev._proximal_bpm_event_index == prev_idx + 1)


_MD_OPT = [('  Name = "x"', "name", "x"), ("  Offset = 3", "offset", 3), ("  Player2 = rhythm", "player2", Player2Instrument.RHYTHM),
           ('  Genre = "pop"', "genre", "pop"), ("  Difficulty = 4", "difficulty", 4)]
_MD_DEF = {"name": None, "offset": 0, "player2": Player2Instrument.BASS, "genre": "rock", "difficulty": 0}


def metadata_twice(p0: bool, p1: bool, p2: bool, q0: bool, q1: bool, q2: bool, fail_first: bool) -> bool:
    """
    post: _
    """
    ps = [H.pick([False, True], int(x)) for x in (p0, p1, p2)]
    qs = [H.pick([False, True], int(x)) for x in (q0, q1, q2)]
    ff = H.pick([False, True], int(fail_first))
    return done(H.isolated("harness.h_extra", "_metadata_twice", ps, qs, ff))     # each history in a fresh interpreter


def _metadata_twice(ps, qs, fail_first):
    p0, p1, p2 = ps
    q0, q1, q2 = qs
    p3 = p4 = q3 = q4 = False
    # two [Song] sections parsed one after the other: the second one's fields come from its own lines
    # and the documented defaults only (also when the first parse failed half-way)
    pad = "  "
    first = [pad + "Resolution = 192"] + [pad + _MD_OPT[i][0].strip() for i, p in enumerate([p0, p1, p2, p3, p4]) if p]
    if fail_first:
        first.append(pad + "Player2 = guitar")
    second = [pad + _MD_OPT[i][0].strip() for i, q in enumerate([q0, q1, q2, q3, q4]) if q] + [pad + "Resolution = 480"]
    try:
        Metadata.from_chart_lines(first)
    except ValueError:
        if not fail_first:
            raise
    md = Metadata.from_chart_lines(second)
    ok = md.resolution == 480
    for i, q in enumerate([q0, q1, q2, q3, q4]):
        name, val = _MD_OPT[i][1], _MD_OPT[i][2]
        ok = ok and getattr(md, name) == (val if q else _MD_DEF[name])
    return ok


_P2VALS = ["bass", "rhythm", "bast", "guitar", "Bass", "RHYTHM", "lead x", "b", "7"]


def player2_any(k: int, quoted: bool) -> bool:
    """
    pre: 0 <= k < len(_P2VALS)
    post: _
    """
    # any Player2 value: the enumeration member, or one of the documented errors - nothing else
    v = H.pick(_P2VALS, k)
    line = _pad() + (('Player2 = "%s"' % v) if quoted else ("Player2 = %s" % v))
    try:
        md = Metadata.from_chart_lines([_pad() + "Resolution = 192", line])
    except (ValueError, MissingRequiredField):
        return done(v not in ("bass", "rhythm"))
    return done(v in ("bass", "rhythm") and md.player2 is Player2Instrument(v))


from harness.h_lines import BASE_SECTION  # noqa: E402

_GCOUNTS = [1, 2, 24, 25, 26, 100, 1000]
_GSHAPES = ["garbage", "  5 = N 8 0", "  {junk}", "  } trailing", "  96 = N {2} 0", '  Name = "{Live}"', "{0}", "  5 = S 64 3"]


def many_unparsable(gi: int, si: int, pos: int) -> bool:
    """
    pre: 0 <= gi < len(_GCOUNTS) and 0 <= si < len(_GSHAPES) and 0 <= pos <= 4
    post: _
    """
    # a block of G identical unparsable lines (G up to 1000; shapes incl. braces) inserted at any position
    # of a section: the parsed track is unchanged and every one of them is reported once
    g, shape, pos = H.pick(_GCOUNTS, gi), H.pick(_GSHAPES, si), H.pick([0, 1, 2, 3, 4], pos)
    with H.untraced():
        be = BPMEvents(events=[BPMEvent(tick=0, timestamp=timedelta(0), bpm=120.0)], resolution=192)
        lines = list(BASE_SECTION)
        lines[pos:pos] = [shape] * g
        log0, log1 = H.CountingLogger(), H.CountingLogger()
        with H.patched((T, "logger", log0)):
            ref = InstrumentTrack.from_chart_lines(Instrument.GUITAR, Difficulty.EXPERT, list(BASE_SECTION), be)
        with H.patched((T, "logger", log1)):
            got = InstrumentTrack.from_chart_lines(Instrument.GUITAR, Difficulty.EXPERT, lines, be)
        return done(got == ref and len(log0.warnings) == 0 and len(log1.warnings) == g)
