"""Integrated CrossHair harnesses: whole track parsers on token lines (vf.tok) with symbolic integers.

The reference oracle (DESIGN §2.6) is written here independently of the implementation.
"""
from __future__ import annotations

import vf.h as H
import vf.tok as K
from vf.h import AbsTime, Clock, done

import chartparse.instrument as I
import chartparse.sync as S
import chartparse.tick
import chartparse.track as T
from chartparse.instrument import Difficulty, HOPOState, Instrument, InstrumentTrack, Note
from chartparse.sync import BPMEvent, BPMEvents
from harness.h_instrument import _triplet_summary

N_ = H.part("VF_N", 2)        # number of N lines
P_ = H.part("VF_P", 2)        # number of S lines
ORDER = H.part("VF_ORDER", 0)  # interleaving of the S/E lines among the N lines
IDXSET = H.part("VF_IDXSET", 0)

US_PER_TICK = [5, 11]          # linear clock: 5 us/tick before T1, 11 after


def tempo_map(t1):
    evs = [BPMEvent(tick=0, timestamp=AbsTime(0), bpm=120.0, _proximal_bpm_event_index=0),
           BPMEvent(tick=t1, timestamp=AbsTime(5 * t1), bpm=60.5, _proximal_bpm_event_index=1)]
    return BPMEvents(events=evs, resolution=192)


def time_of(t1, tick):
    if tick < t1:
        return 5 * tick
    return 5 * t1 + 11 * (tick - t1)


def clock():
    return Clock("linear", mult={120.0: 5, 60.5: 11})


def env(c):
    return H.patched(*(list(H.abstract_time(c).triples) + K.recogniser_patches() + H.unwrap_caches() +
                       [(chartparse.tick, "note_duration_to_ticks", _triplet_summary),
                        (T, "logger", H.CountingLogger())]))


def interleave(ns, others, order):
    """Deterministic interleavings of the non-note lines among the note lines."""
    if order == 0:
        return ns + others
    if order == 1:
        return others + ns
    out = []
    k = 0
    for i, x in enumerate(ns):
        out.append(x)
        if k < len(others):
            out.append(others[k])
            k += 1
    return out + others[k:]


# ---------------------------------------------------------------------------------------------
# C05 integrated: N notes x P phrases through InstrumentTrack.from_chart_lines
# ---------------------------------------------------------------------------------------------


def star_power_integrated(n0: int, n1: int, n2: int, s0: int, l0: int, s1: int, l1: int, s2: int, l2: int,
                          t1: int) -> bool:
    """
    pre: 0 <= n0 < n1 < n2
    pre: 0 <= s0 <= s1 <= s2 and l0 >= 0 and l1 >= 0 and l2 >= 0
    pre: t1 > 0
    post: _
    """
    nt = [n0, n1, n2][:N_]
    st, ln = [s0, s1, s2][:P_], [l0, l1, l2][:P_]
    nlines = [K.N(t, 0, 0) for t in nt]
    slines = [K.S(st[i], ln[i]) for i in range(P_)]
    lines = interleave(nlines, slines, ORDER)
    be = tempo_map(t1)
    with env(clock()):
        tr = InstrumentTrack.from_chart_lines(Instrument.GUITAR, Difficulty.EXPERT, iter(lines), be)
    ok = len(tr.note_events) == N_ and len(tr.star_power_events) == P_
    if not ok:
        return done(False)
    for i in range(P_):
        e = tr.star_power_events[i]
        ok = ok and e.tick == st[i] and e.sustain == ln[i] and e.timestamp.us == time_of(t1, st[i])
    for j in range(N_):
        want = None
        for i in range(P_ - 1, -1, -1):
            if st[i] <= nt[j] and nt[j] < st[i] + ln[i]:
                want = i
        ev = tr.note_events[j]
        ok = ok and ev.tick == nt[j] and ev.timestamp.us == time_of(t1, nt[j])
        if want is None:
            ok = ok and ev.star_power_data is None
        else:
            ok = ok and ev.star_power_data is not None and ev.star_power_data.star_power_event_index == want
    return done(ok)


# ---------------------------------------------------------------------------------------------
# C02/C03/C04/C11/C12 integrated: note section with symbolic ticks, lanes, lengths
# ---------------------------------------------------------------------------------------------
import os  # noqa: E402

IDX = [int(x) for x in os.environ.get("VF_IDX", "0,1").split(",")]   # concrete lane/flag index per N line
NI = len(IDX)
EQSUS = os.environ.get("VF_EQSUS", "0") == "1"   # every N line carries the same (one symbolic) length


def _groups(ticks):
    g = []
    for k in range(len(ticks)):
        if k > 0 and ticks[k] == ticks[k - 1]:
            g[-1].append(k)
        else:
            g.append([k])
    return g


def _well_formed(groups, idx):
    for g in groups:
        lanes, opens = 0, 0
        for a, k in enumerate(g):
            if idx[k] <= 4:
                lanes += 1
                for k2 in g[:a]:
                    if idx[k2] == idx[k]:
                        return False
            if idx[k] == 7:
                opens += 1
        if (opens and lanes) or lanes + opens == 0 or opens > 1:
            return False
    # the first note cannot be forced (Moonscraper cannot produce it; the parser rejects it)
    for k in groups[0]:
        if idx[k] == 5:
            return False
    return True


def note_section(t0: int, t1: int, t2: int, t3: int,
                 u0: int, u1: int, u2: int, u3: int, tb: int, R: int, sp_s: int, sp_l: int) -> bool:
    """
    pre: 0 <= t0 <= t1 <= t2 <= t3
    pre: all(u >= 0 for u in [u0, u1, u2, u3])
    pre: _well_formed(_groups([t0, t1, t2, t3][:NI]), IDX)
    pre: tb > 0 and R >= 1 and sp_s >= 0 and sp_l >= 0
    post: _
    """
    ticks, idx, sus = [t0, t1, t2, t3][:NI], IDX, ([u0] * NI if EQSUS else [u0, u1, u2, u3][:NI])
    nlines = [K.N(ticks[k], idx[k], sus[k]) for k in range(NI)]
    others = [K.S(sp_s, sp_l), K.E(ticks[0], "solo"), K.GARBAGE(0)]
    lines = interleave(nlines, others, ORDER)
    evs = [BPMEvent(tick=0, timestamp=AbsTime(0), bpm=120.0, _proximal_bpm_event_index=0),
           BPMEvent(tick=tb, timestamp=AbsTime(5 * tb), bpm=60.5, _proximal_bpm_event_index=1)]
    be = BPMEvents(events=evs, resolution=R)
    with env(clock()):
        tr = InstrumentTrack.from_chart_lines(Instrument.BASS, Difficulty.HARD, iter(lines), be)
    groups = _groups(ticks)
    ok = tr.instrument is Instrument.BASS and tr.difficulty is Difficulty.HARD
    ok = ok and len(tr.note_events) == len(groups) and len(tr.star_power_events) == 1 and len(tr.track_events) == 1
    if not ok:
        return done(False)
    ok = ok and tr.track_events[0].tick == ticks[0] and tr.track_events[0].value == "solo"
    ok = ok and tr.track_events[0].timestamp.us == time_of(tb, ticks[0])
    prev_tick, prev_lanes = None, None
    for j, g in enumerate(groups):
        ev = tr.note_events[j]
        tick = ticks[g[0]]
        lanes = [0] * 5
        lane_len = [None] * 5
        open_len = None
        tap = forced = False
        for k in g:
            if idx[k] <= 4:
                lanes[idx[k]] = 1
                lane_len[idx[k]] = sus[k]
            elif idx[k] == 7:
                open_len = sus[k]
            elif idx[k] == 6:
                tap = True
            else:
                forced = True
        ok = ok and ev.tick == tick and tuple(ev.note.value) == tuple(lanes)
        # sustain (an open note reports its own length wherever its line stands among flag lines)
        if open_len is not None:
            mx = open_len
            ok = ok and (not isinstance(ev.sustain, tuple)) and ev.sustain == open_len
        else:
            present = [x for x in lane_len if x is not None]
            mx = present[0]
            agree = True
            for x in present:
                if x != present[0]:
                    agree = False
                if x > mx:
                    mx = x
            if agree:
                ok = ok and (not isinstance(ev.sustain, tuple)) and ev.sustain == present[0]
            else:
                ok = ok and isinstance(ev.sustain, tuple) and len(ev.sustain) == 5
                if not ok:
                    return done(False)
                for q in range(5):
                    if lane_len[q] is None:
                        ok = ok and ev.sustain[q] is None
                    else:
                        ok = ok and ev.sustain[q] is not None and ev.sustain[q] == lane_len[q]
        ok = ok and ev.longest_sustain == mx and ev.end_tick == tick + mx
        # times (C01/C11/C12): the linear clock's exact tempo-map time
        ok = ok and ev.timestamp.us == time_of(tb, tick) and ev.end_timestamp.us == time_of(tb, tick + mx)
        ok = ok and ev._proximal_bpm_event_index == (1 if tick >= tb else 0)
        # hopo
        if tap:
            want = HOPOState.TAP
        elif prev_tick is None:
            want = HOPOState.STRUM
        else:
            natural = sum(lanes) <= 1 and lanes != prev_lanes and 3 * (tick - prev_tick) <= R + 1
            want = HOPOState.HOPO if natural != forced else HOPOState.STRUM
        ok = ok and ev.hopo_state is want
        # star power
        inside = sp_s <= tick and tick < sp_s + sp_l
        if inside:
            ok = ok and ev.star_power_data is not None and ev.star_power_data.star_power_event_index == 0
        else:
            ok = ok and ev.star_power_data is None
        prev_tick, prev_lanes = tick, lanes
    # last note end
    mxend = None
    for ev in tr.note_events:
        if mxend is None or ev.end_timestamp.us > mxend:
            mxend = ev.end_timestamp.us
    ok = ok and tr.last_note_end_timestamp is not None and tr.last_note_end_timestamp.us == mxend
    return done(ok)


# ---------------------------------------------------------------------------------------------
# C09 integrated: global events through GlobalEventsTrack.from_chart_lines
# ---------------------------------------------------------------------------------------------
import chartparse.globalevents as G  # noqa: E402

NG = H.part("VF_NG", 3)


def global_section(k0: int, k1: int, k2: int, t0: int, t1: int, t2: int, v0: str, v1: str, v2: str, tb: int) -> bool:
    """
    pre: all(0 <= k <= 2 for k in [k0, k1, k2])
    pre: t0 >= 0 and t1 >= 0 and t2 >= 0 and tb > 0
    post: _
    """
    # any line order: ticks need not be sorted ("forall line orders"); an unsorted section may be
    # rejected with ValueError, an accepted one keeps every event at its own tick in file order
    kinds = ["LYR", "SEC", "TXT"]
    ks, ts, vs = [k0, k1, k2][:NG], [t0, t1, t2][:NG], [v0, v1, v2][:NG]
    lines = []
    for i in range(NG):
        lines.append(K.GE(kinds[ks[i]], ts[i], vs[i]))
        if i == 0:
            lines.append(K.GARBAGE(0))
    be = tempo_map(tb)
    is_sorted = True
    for i in range(1, NG):
        if ts[i - 1] > ts[i]:
            is_sorted = False
    with env(clock()):
        try:
            g = G.GlobalEventsTrack.from_chart_lines(iter(lines), be)
        except ValueError:
            return done(not is_sorted)
    got = [g.lyric_events, g.section_events, g.text_events]
    classes = [G.LyricEvent, G.SectionEvent, G.TextEvent]
    ok = len(got[0]) + len(got[1]) + len(got[2]) == NG
    for kind in range(3):
        want = [i for i in range(NG) if ks[i] == kind]
        ok = ok and len(got[kind]) == len(want)
        if not ok:
            return done(False)
        for j, i in enumerate(want):
            e = got[kind][j]
            ok = ok and type(e) is classes[kind] and e.tick == ts[i] and e.value is vs[i]
            ok = ok and e.timestamp.us == time_of(tb, ts[i])
    return done(ok)


# ---------------------------------------------------------------------------------------------
# C14 integrated: inserting unparsable lines anywhere leaves every parsed event unchanged
# ---------------------------------------------------------------------------------------------
TRACK = H.part("VF_TRACK", 0)


def garbage_locality(g0: bool, g1: bool, g2: bool, g3: bool, g4: bool, dup: bool, ta: int, tb_: int, v: int) -> bool:
    """
    pre: 0 < ta < tb_ and v >= 0
    post: _
    """
    gs = [g0, g1, g2, g3, g4]
    be = tempo_map(ta)
    if TRACK == 0:
        base = [K.N(ta, 0, v), K.S(ta, v), K.N(tb_, 1, 0), K.E(tb_, "solo")]
        parse = lambda ls: InstrumentTrack.from_chart_lines(Instrument.GUITAR, Difficulty.EXPERT, ls, be)  # noqa: E731
    elif TRACK == 1:
        base = [K.TS(0, 4), K.B(0, "120000"), K.B(ta, "60500"), K.A(tb_, v)]
        parse = lambda ls: S.SyncTrack.from_chart_lines(192, ls)  # noqa: E731
    else:
        base = [K.GE("SEC", ta, "a"), K.GE("LYR", ta, "b"), K.GE("TXT", tb_, "c"), K.GE("LYR", tb_, "d")]
        parse = lambda ls: G.GlobalEventsTrack.from_chart_lines(ls, be)  # noqa: E731
    with_g = []
    n_g = 0
    for i in range(5):
        if gs[i]:
            with_g.append(K.GARBAGE(i))
            n_g += 1
            if dup:
                with_g.append(K.GARBAGE(i))
                n_g += 1
        if i < 4:
            with_g.append(base[i])
    log1, log2 = H.CountingLogger(), H.CountingLogger()
    with env(clock()):
        with H.patched((T, "logger", log1)):
            ref = parse(list(base))
        with H.patched((T, "logger", log2)):
            got = parse(with_g)
    ok = len(log1.warnings) == 0 and len(log2.warnings) == n_g
    ok = ok and got == ref and ref == got
    return done(ok)


# ---------------------------------------------------------------------------------------------
# C11 obligation 4 for notes: arbitrary tick order -> ValueError or correctly placed timestamps
# ---------------------------------------------------------------------------------------------


def note_section_any_order(t0: int, t1: int, t2: int, u0: int, u1: int, u2: int, tb: int) -> bool:
    """
    pre: t0 >= 0 and t1 >= 0 and t2 >= 0 and u0 >= 0 and u1 >= 0 and u2 >= 0 and tb > 0
    post: _
    """
    ticks, sus = [t0, t1, t2][:NI], [u0, u1, u2][:NI]
    lines = [K.N(ticks[k], IDX[k] if IDX[k] <= 4 else 0, sus[k]) for k in range(NI)]
    evs = [BPMEvent(tick=0, timestamp=AbsTime(0), bpm=120.0, _proximal_bpm_event_index=0),
           BPMEvent(tick=tb, timestamp=AbsTime(5 * tb), bpm=60.5, _proximal_bpm_event_index=1)]
    be = BPMEvents(events=evs, resolution=192)
    is_sorted = True
    for k in range(1, NI):
        if ticks[k - 1] > ticks[k]:
            is_sorted = False
    with env(clock()):
        try:
            tr = InstrumentTrack.from_chart_lines(Instrument.GUITAR, Difficulty.EXPERT, lines, be)
        except ValueError:
            return done(not is_sorted)
    groups = _groups(ticks)       # adjacent equal ticks
    ok = len(tr.note_events) == len(groups)
    if not ok:
        return done(False)
    for j, g in enumerate(groups):
        ev = tr.note_events[j]
        ok = ok and ev.tick == ticks[g[0]] and ev.timestamp.us == time_of(tb, ev.tick)
        ok = ok and ev.end_timestamp.us == time_of(tb, ev.end_tick)
    return done(ok)
