#!/bin/bash
# dev helper: ./tools_ch.sh <module> <fn> <timeout> [ENV=VAL ...]
cd "$(dirname "$0")"
mod=$1; fn=$2; to=$3; shift 3
env PYTHONPATH=/verif:${VERIF_REPO:-/repo} PYTHONDONTWRITEBYTECODE=1 "$@" .venv/bin/python -m vf.ch_worker $mod $fn $to | python3 -c "
import sys, json
for l in sys.stdin:
    if l.startswith('RESULT '):
        r = json.loads(l[7:])
        print(r['fn'], r['verdict'], 'paths', r.get('paths'), 'reached', r.get('reached'), 'cpu', r.get('cpu_s'), '|', (r.get('detail') or '')[-900:], '| twin', r.get('twin_ok'))
    else: print(l, end='')
"
