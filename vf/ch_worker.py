"""Run one CrossHair obligation (a harness function) in this process and print a RESULT line.

usage: python -m vf.ch_worker <module> <function> <per_condition_timeout> [--no-twin]

The harness module is imported from /verif (harness.*), chartparse from $VERIF_REPO (default /repo).
Verdict mapping (DESIGN §1.3):
  CONFIRMED ("Confirmed over all paths")        -> holds
  POST_FAIL / EXEC_ERR / POST_ERR (counterexample) -> candidate (replayed by the caller)
  CANNOT_CONFIRM / PRE_UNSAT / anything else      -> inconclusive
After the main run the *twin* (same harness, final result forced to False) is analysed with a short
budget; it must be refuted, otherwise the harness never reaches its assertion (vacuous).
"""
from __future__ import annotations

import collections
import importlib
import json
import os
import re
import sys
import time
import traceback


def _load_plugin() -> None:
    here = os.path.dirname(os.path.abspath(__file__))
    with open(os.path.join(here, "ch_plugin.py")) as f:
        exec(compile(f.read(), "ch_plugin.py", "exec"), {})


_CALL_RE = re.compile(r"when calling (.*?)(?: \(which returns (.*)\))?$", re.S)


def analyze(modname: str, fnname: str, timeout: float, twin: bool) -> dict:
    from crosshair.core_and_libs import analyze_function, run_checkables  # noqa: F401
    from crosshair.options import AnalysisOptionSet
    from crosshair.statespace import MessageType

    _load_plugin()
    import vf.h as H

    H.TWIN[0] = twin
    H.REACHED[0] = 0
    mod = importlib.import_module(modname)
    fn = getattr(mod, fnname)
    stats: collections.Counter = collections.Counter()
    options = AnalysisOptionSet(
        per_condition_timeout=float(timeout),
        report_all=True,
        max_uninteresting_iterations=sys.maxsize,
        stats=stats,
    )
    t0 = time.process_time()
    w0 = time.time()
    checkables = analyze_function(fn, options)
    if not checkables:
        return {"verdict": "error", "detail": f"no checkable conditions on {modname}.{fnname}"}
    messages = []
    for c in checkables:
        messages.extend(c.analyze())
    cpu = time.process_time() - t0
    wall = time.time() - w0
    res: dict = {
        "paths": int(stats.get("num_paths", 0)),
        "reached": int(H.REACHED[0]),
        "cpu_s": round(cpu, 2),
        "wall_s": round(wall, 2),
        "messages": [f"{m.state.name}: {m.message}" for m in messages],
    }
    states = [m.state for m in messages]
    bad = [m for m in messages if m.state in (MessageType.POST_FAIL, MessageType.EXEC_ERR,
                                               MessageType.POST_ERR)]
    if bad:
        m = bad[0]
        res["verdict"] = "candidate"
        res["detail"] = m.message
        mm = _CALL_RE.search(m.message)
        if mm:
            res["call"] = mm.group(1)
            res["returns"] = mm.group(2)
        res["traceback"] = (m.traceback or "")[-1500:]
    elif states and all(s == MessageType.CONFIRMED for s in states):
        res["verdict"] = "holds"
        res["detail"] = "Confirmed over all paths"
    elif any(s == MessageType.SYNTAX_ERR or s == MessageType.IMPORT_ERR for s in states):
        res["verdict"] = "error"
        res["detail"] = "; ".join(res["messages"])
    else:
        res["verdict"] = "inconclusive"
        res["detail"] = "; ".join(res["messages"]) or "no message"
    return res


def main(argv: list[str]) -> int:
    modname, fnname, timeout = argv[0], argv[1], float(argv[2])
    want_twin = "--no-twin" not in argv
    only_twin = "--only-twin" in argv
    out: dict = {"engine": "CH", "module": modname, "fn": fnname, "timeout": timeout}
    try:
        if not only_twin:
            out.update(analyze(modname, fnname, timeout, twin=False))
        if want_twin and out.get("verdict") in ("holds", "inconclusive", None):
            tw = analyze(modname, fnname, min(timeout, 60.0), twin=True)
            out["twin"] = {"verdict": tw["verdict"], "paths": tw.get("paths"),
                           "call": tw.get("call"), "cpu_s": tw.get("cpu_s")}
            # the twin must be *refuted* by reaching the end of the harness
            out["twin_ok"] = tw["verdict"] == "candidate" and tw.get("reached", 0) > 0 and \
                "false when calling" in (tw.get("detail") or "")
            if only_twin:
                out["verdict"] = "holds" if out["twin_ok"] else "inconclusive"
                out["detail"] = "twin only"
            elif out["verdict"] == "holds" and not out["twin_ok"]:
                out["verdict"] = "inconclusive"
                out["detail"] = "vacuous: reachability twin was not refuted (%s)" % tw.get("detail")
    except BaseException as e:  # noqa: BLE001 - worker boundary
        out["verdict"] = "error"
        out["detail"] = "".join(traceback.format_exception(e))[-3000:]
    print("RESULT " + json.dumps(out))
    return 0


if __name__ == "__main__":
    sys.exit(main(sys.argv[1:]))
