"""Entry point: ./check <property-id> <quick|thorough>  |  ./check --replay <path>."""
from __future__ import annotations

import hashlib
import importlib
import json
import os
import re
import subprocess
import sys
import time

from . import REPO_DIR, VERIF_DIR
from .runner import Ob, run_all

# VERIF_EVID_DIR: scratch evidence directory for runs against seeded scratch trees (tools/), so that
# they never overwrite the committed evidence of the unchanged tree
EVID_DIR = os.environ.get("VERIF_EVID_DIR") or os.path.join(VERIF_DIR, "evidence")
REPLAY_DIR = os.path.join(EVID_DIR, "replays")
KNOWN = os.path.join(VERIF_DIR, "known_findings.txt")

EXIT_OK, EXIT_VIOLATION, EXIT_HARNESS = 0, 1, 3


def load_known(pid: str):
    """Unrepaired findings only (`finding:` lines); `fixed:` lines suppress nothing."""
    out = []
    if not os.path.exists(KNOWN):
        return out
    for ln in open(KNOWN):
        ln = ln.strip()
        m = re.match(r"finding:\s+property=(\S+)\s+obligation=(\S+)\s+match=(\S+)\s+(.*)$", ln)
        if m and m.group(1) == pid:
            out.append({"ob": m.group(2), "match": m.group(3), "what": m.group(4)})
    return out


def ch_replay_script(pid: str, r: dict) -> str:
    env = {k: str(v) for k, v in r.get("env", {}).items()}
    return f'''#!/usr/bin/env python
# Replay of a solver counterexample, property {pid}, obligation {r["name"]}.
# Re-runs the harness *concretely* (no CrossHair, no solver) against the chartparse tree in
# $VERIF_REPO (default /repo).  Exit 1 = the violation reproduces, 0 = it does not.
import os, sys
os.environ.update({env!r})
REPO = os.environ.get("VERIF_REPO", "/repo")
sys.path[:0] = [{VERIF_DIR!r}, REPO]
import importlib
M = importlib.import_module({r["module"]!r})
ns = dict(vars(M)); ns.update(vars(__import__("builtins")))
try:
    from math import inf, nan  # reprs CrossHair may print
    ns.update(inf=inf, nan=nan)
    ret = eval({r.get("call", "")!r}, ns)
    print("harness returned", ret)
    bad = ret is False or ret is None
except Exception as e:
    import traceback; traceback.print_exc()
    print("harness raised", type(e).__name__, e)
    # an exception raised by chartparse code is a deviation of the code under test; one raised by the
    # harness itself (a private name it drives no longer exists, a stub used outside its contract)
    # means the harness cannot judge this tree: exit 2 (inconclusive), never an alarm
    tb = e.__traceback__
    last = None
    in_repo = False
    root = os.path.realpath(REPO) + os.sep
    while tb is not None:
        last = tb.tb_frame.f_code.co_filename
        if os.path.realpath(last).startswith(root):
            in_repo = True          # the exception passed through chartparse code
        tb = tb.tb_next
    if type(e).__name__ == "Poison":
        in_repo = False             # a stub was used outside its contract: the harness cannot judge
    if type(e).__name__ == "IsolatedFailure":
        in_repo = (root + "chartparse") in str(e)      # traceback text of the fresh-interpreter run
    if not in_repo:
        print("CANNOT-JUDGE: the exception comes from the harness, not from chartparse:", last)
        sys.exit(2)
    bad = True
print("REPRODUCED" if bad else "NOT-REPRODUCED", {r["name"]!r}, {r.get("call", "")!r})
sys.exit(1 if bad else 0)
'''


def run_replay(path: str) -> tuple[int, str]:
    env = dict(os.environ)
    env["PYTHONPATH"] = VERIF_DIR + os.pathsep + REPO_DIR
    env["VERIF_REPO"] = REPO_DIR
    env["PYTHONDONTWRITEBYTECODE"] = "1"
    try:
        p = subprocess.run([sys.executable, path], env=env, cwd=VERIF_DIR, capture_output=True,
                           text=True, timeout=600)
    except subprocess.TimeoutExpired:
        return 2, "replay timed out"
    return p.returncode, (p.stdout + p.stderr)[-4000:]


def main(argv: list[str]) -> int:
    if argv and argv[0] == "--replay":
        rc, out = run_replay(argv[1])
        print(out)
        return rc
    if len(argv) < 1:
        print("usage: check <id> [quick|thorough] | check --replay <path>")
        return 2
    pid = argv[0].upper()
    tier = (argv[1] if len(argv) > 1 else os.environ.get("VERIF_TIER", "quick")).lower()
    if tier not in ("quick", "thorough"):
        tier = "quick"
    seed = int(os.environ.get("VERIF_SEED", "0") or 0)
    only = os.environ.get("VERIF_ONLY")  # debugging aid: regex over obligation names
    t0 = time.time()
    os.makedirs(REPLAY_DIR, exist_ok=True)
    evid_path = os.path.join(EVID_DIR, f"{pid}.json")
    if os.path.exists(evid_path):
        os.remove(evid_path)

    pm = importlib.import_module(f"vf.props.{pid.lower()}")
    obs: list[Ob] = pm.obligations(tier)
    if only:
        obs = [o for o in obs if re.search(only, o.name)]
    print(f"[{pid}] tier={tier} obligations={len(obs)} repo={REPO_DIR}", flush=True)

    def progress(r):
        extra = ""
        if r.get("engine") == "CH":
            extra = f"paths={r.get('paths')} reached={r.get('reached')} cpu={r.get('cpu_s')}s"
        else:
            extra = f"queries={r.get('queries')} solver={r.get('solver_s')}s"
        print(f"  {r['verdict']:<12} {r['name']:<46} {extra}", flush=True)

    results = run_all(obs, progress)

    known = load_known(pid)
    violations, harness_errors, known_hits, inconclusive, errors = [], [], [], [], []
    replays_run = 0
    for r in results:
        v = r["verdict"]
        if v == "candidate":
            if r.get("engine") == "CH":
                src = ch_replay_script(pid, r)
            else:
                src = r.get("replay_src")
            if not src:
                harness_errors.append((r, "candidate without a replay"))
                continue
            h = hashlib.sha1((r["name"] + str(r.get("call")) + src).encode()).hexdigest()[:10]
            path = os.path.join(REPLAY_DIR, f"{pid}-{h}.py")
            with open(path, "w") as f:
                f.write(src)
            rc, out = run_replay(path)
            replays_run += 1
            r["replay"] = {"path": path, "rc": rc, "tail": out[-600:]}
            if rc == 1:
                hit = None
                for k in known:
                    if re.search(k["ob"], r["name"]) and re.search(k["match"], str(r.get("call")) + str(r.get("detail"))):
                        hit = k
                if hit:
                    known_hits.append((r, hit))
                else:
                    violations.append((r, path))
            elif rc == 2:
                # the replay could not judge (e.g. the decoded field is right although the raw capture
                # group differs from the SPEC value: the implementation post-processes the capture)
                r["verdict"] = "inconclusive"
                r["detail"] = "candidate not judgeable by its replay: " + str(r.get("detail"))[:200]
                inconclusive.append(r)
            else:
                harness_errors.append((r, "counterexample did not reproduce concretely (rc=%s)" % rc))
        elif v == "inconclusive":
            inconclusive.append(r)
        elif v == "error":
            errors.append(r)

    held = [r for r in results if r["verdict"] == "holds"]
    # ---- evidence -------------------------------------------------------------------------
    evaluations = 0
    nontrivial = 0
    samples = []
    ob_rows = []
    funcs = set()
    solver_s = 0.0
    for r in results:
        if r.get("engine") == "CH":
            evaluations += int(r.get("paths") or 0)
            nontrivial += int(r.get("reached") or 0)
            solver_s += float(r.get("cpu_s") or 0)
            tw = r.get("twin") or {}
            if tw.get("call"):
                samples.append({"obligation": r["name"], "reachability_witness": tw["call"]})
        else:
            evaluations += int(r.get("queries") or 0)
            nontrivial += int(r.get("nontrivial") or 0)
            solver_s += float(r.get("solver_s") or 0)
            for s in (r.get("samples") or [])[:3]:
                samples.append({"obligation": r["name"], "witness": s})
        funcs.update(r.get("funcs") or [])
        ob_rows.append({
            "name": r["name"], "engine": r.get("engine"), "verdict": r["verdict"],
            "detail": (r.get("detail") or "")[:300],
            "paths_or_queries": r.get("paths") if r.get("engine") == "CH" else r.get("queries"),
            "reached_or_nontrivial": r.get("reached") if r.get("engine") == "CH" else r.get("nontrivial"),
            "solver_cpu_s": r.get("cpu_s") if r.get("engine") == "CH" else r.get("solver_s"),
            "bounds": r.get("bounds"), "partition": r.get("env") or None,
            "reachability_twin_refuted": r.get("twin_ok"),
        })
    level = getattr(pm, "LEVEL", "model_checking")
    evidence = {
        "property_id": pid,
        "tier": tier,
        "seed": seed,
        "level": level,
        "coverage": {
            "evaluations": evaluations,
            "distinct_nontrivial": nontrivial,
            "rule": "evaluations = CrossHair execution paths explored (each a distinct branch "
                    "decision sequence, solver-checked for feasibility) + SMT queries discharged; "
                    "non-trivial = paths that satisfied all preconditions and reached the harness' "
                    "final assertion + queries whose premises were shown satisfiable "
                    "(vacuity witnesses) or that returned a replay-validated model.",
            "samples": samples[:40] or [{"note": "no samples produced"}],
            "obligations": len(results),
            "discharged": len(held),
            "inconclusive": [r["name"] for r in inconclusive + errors],
            "exhaustive": len(held) == len(results),
            "explanation": getattr(pm, "EXPLANATION", ""),
            "functions_encoded": sorted(funcs),
            "bounds": getattr(pm, "BOUNDS", ""),
            "outside_claim": getattr(pm, "OUTSIDE", ""),
            "obligation_table": ob_rows,
            "solver_cpu_s": round(solver_s, 2),
            "traces_validated_against_impl": replays_run + sum(int(r.get("validated") or 0) for r in results),
            "trusted_base": getattr(pm, "TRUSTED", []),
            "checker_cmd": f"./check {pid} {tier}",
        },
        "assumptions": getattr(pm, "ASSUMPTIONS", []),
        "wall_s": round(time.time() - t0, 2),
        "violations": len(violations),
    }
    with open(evid_path, "w") as f:
        json.dump(evidence, f, indent=1, default=str)

    # ---- report ---------------------------------------------------------------------------
    for r in inconclusive:
        print(f"INCONCLUSIVE obligation={r['name']} {str(r.get('detail'))[:200]}")
    for r in errors:
        print(f"HARNESS-ERROR obligation={r['name']} {str(r.get('detail'))[-400:]}")
    for (r, why) in harness_errors:
        print(f"HARNESS-ERROR obligation={r['name']} {why}: {r.get('call') or r.get('detail')}")
    for (r, k) in known_hits:
        print(f"KNOWN-FINDING: property={pid} {k['what']}")
    for (r, path) in violations:
        print(f"counterexample obligation={r['name']} {r.get('call') or ''} :: {str(r.get('detail'))[:300]}")
        print(f"VIOLATION property={pid} replay={path}")
    print(f"[{pid}] held={len(held)}/{len(results)} inconclusive={len(inconclusive)} "
          f"errors={len(errors)+len(harness_errors)} violations={len(violations)} "
          f"wall={time.time()-t0:.1f}s")
    if violations:
        return EXIT_VIOLATION
    if harness_errors or (results and not held):
        return EXIT_HARNESS
    return EXIT_OK


if __name__ == "__main__":
    sys.exit(main(sys.argv[1:]))
