"""Obligation model and parallel execution (one OS process per obligation, <=16 at a time)."""
from __future__ import annotations

import concurrent.futures as cf
import dataclasses
import json
import os
import subprocess
import sys
import time
from typing import Any

from . import REPO_DIR, VERIF_DIR

NPROC = int(os.environ.get("VERIF_JOBS", "16"))


@dataclasses.dataclass
class Ob:
    name: str                 # unique obligation name
    engine: str               # "CH" (CrossHair harness) | "PY" (solver script: z3 / cvc5 / smt-lib)
    module: str               # harness.* module (CH) or vf.* module (PY)
    fn: str                   # harness function / entry function
    timeout: float = 60.0     # CPU budget handed to the engine (per condition / per query set)
    env: dict = dataclasses.field(default_factory=dict)   # discrete partition parameters
    args: dict = dataclasses.field(default_factory=dict)  # PY engine keyword arguments
    funcs: tuple = ()         # chartparse functions encoded / executed symbolically
    bounds: str = ""          # stated bounds of this obligation
    twin: bool = True
    weight: float = 1.0       # scheduling hint (longest first)


def _run_one(ob: Ob) -> dict:
    env = dict(os.environ)
    env["PYTHONPATH"] = VERIF_DIR + os.pathsep + REPO_DIR
    env["VERIF_REPO"] = REPO_DIR
    env["PYTHONDONTWRITEBYTECODE"] = "1"
    env["PYTHONHASHSEED"] = "0"
    env.update({k: str(v) for k, v in ob.env.items()})
    if ob.engine == "CH":
        cmd = [sys.executable, "-m", "vf.ch_worker", ob.module, ob.fn, str(ob.timeout)]
        if not ob.twin:
            cmd.append("--no-twin")
        hard = ob.timeout * 1.5 + 150
    else:
        cmd = [sys.executable, "-m", "vf.py_worker", ob.module, ob.fn, json.dumps(ob.args),
               str(ob.timeout)]
        hard = ob.timeout * 1.5 + 120
    t0 = time.time()
    res: dict[str, Any]
    try:
        p = subprocess.run(cmd, env=env, cwd=VERIF_DIR, capture_output=True, text=True,
                           timeout=hard)
        line = None
        for ln in p.stdout.splitlines():
            if ln.startswith("RESULT "):
                line = ln[7:]
        if line is None:
            res = {"verdict": "error",
                   "detail": "no RESULT line; rc=%s; stderr tail: %s" % (p.returncode, p.stderr[-1500:])}
        else:
            res = json.loads(line)
    except subprocess.TimeoutExpired:
        res = {"verdict": "inconclusive", "detail": "hard wall timeout %.0fs" % hard}
    res["name"] = ob.name
    res["engine"] = res.get("engine", ob.engine)
    res["wall_total_s"] = round(time.time() - t0, 2)
    res["funcs"] = list(ob.funcs)
    res["bounds"] = ob.bounds
    res["env"] = dict(ob.env)
    res["module"] = ob.module
    res["fn"] = ob.fn
    return res


def run_all(obs: list[Ob], progress=None) -> list[dict]:
    order = sorted(range(len(obs)), key=lambda i: -(obs[i].weight * obs[i].timeout))
    out: list[Any] = [None] * len(obs)
    with cf.ThreadPoolExecutor(max_workers=NPROC) as ex:
        futs = {ex.submit(_run_one, obs[i]): i for i in order}
        for f in cf.as_completed(futs):
            i = futs[f]
            out[i] = f.result()
            if progress:
                progress(out[i])
    return out
