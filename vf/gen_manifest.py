"""Regenerate /verif/MANIFEST.json from the property modules (python -m vf.gen_manifest)."""
from __future__ import annotations

import importlib
import json
import os

from . import VERIF_DIR

ALL = [f"C{i:02d}" for i in range(1, 21)]

NOT_APPLICABLE = {}     # every property has a check; C17 is claimed for its history fragment only (see its level_note)


def main():
    checks = []
    na = []
    for pid in ALL:
        if pid in NOT_APPLICABLE:
            na.append({"property_id": pid, "reason": NOT_APPLICABLE[pid]})
            continue
        try:
            pm = importlib.import_module(f"vf.props.{pid.lower()}")
        except ModuleNotFoundError:
            na.append({"property_id": pid, "reason": "check not built yet (work in progress; see DESIGN.md section 4 for the planned obligations)"})
            continue
        level = getattr(pm, "LEVEL", "model_checking")
        checks.append({
            "property_id": pid,
            "quick_cmd": f"./check {pid} quick",
            "thorough_cmd": f"./check {pid} thorough",
            "evidence_file": f"/verif/evidence/{pid}.json",
            "replay_cmd_template": "./check --replay {path}",
            "engine": getattr(pm, "ENGINE", "crosshair+z3"),
            "level_claimed": {
                "category": level,
                "text": getattr(pm, "LEVEL_TEXT", ""),
                "design_ref": f"DESIGN.md section 4 ({pid})",
            },
            "level_note": getattr(pm, "LEVEL_NOTE", ""),
            "technique": getattr(pm, "TECHNIQUE", "bounded symbolic execution of the real functions (CrossHair + z3)"),
        })
    manifest = {
        "version": 1,
        "setup_cmd": "./setup.sh",
        "hooks": {
            "guard": "CHARTPARSE_VERIF",
            "enable": "no source hooks are needed: harness processes patch module attributes of the imported chartparse modules (stubs S1-S8, DESIGN.md 2.1.3); the guard variable is reserved and unused",
            "baseline_off_cmd": "cd /repo && /venv/bin/python -m pytest -q -p no:cacheprovider --timeout=900",
            "source_commits": [],
            "add_only": True,
        },
        "engines": [
            {"name": "CH", "path": "vf/ch_worker.py", "kind_free_text": "CrossHair 0.0.110 symbolic execution of the real chartparse functions (z3 back end), harnesses in harness/"},
            {"name": "RX", "path": "vf/rx.py", "kind_free_text": "shipped regular expressions translated to z3 regex terms; language inclusion / disjointness / capture lemmas"},
            {"name": "FK", "path": "vf/fk.py", "kind_free_text": "float kernels translated from the live AST to SMT (cvc5 QF_BVFP bit-precise, z3 QF_NRA axiomatised rounding)"},
            {"name": "IM", "path": "vf/im.py", "kind_free_text": "import-time programs extracted from the live ASTs, inductive bounded model check in z3"},
        ],
        "checks": checks,
        "not_applicable": na,
        "notes": "All checks are solver-based (DESIGN.md). Exit 0 held / 1 VIOLATION after concrete replay / 3 harness error.",
    }
    with open(os.path.join(VERIF_DIR, "MANIFEST.json"), "w") as f:
        json.dump(manifest, f, indent=1)
    print("checks:", [c["property_id"] for c in checks])
    print("not_applicable:", [c["property_id"] for c in na])


if __name__ == "__main__":
    main()
