"""C07 - instrument-section lines are recognised and decoded exactly."""
from vf.runner import Ob
from .common import _sync_section, _two_maps, _e2e  # noqa: F401
from .common import *  # noqa: F401,F403

LEVEL = "other"
IN = "chartparse.instrument."


def obligations(tier):
    obs = [Ob("C07.rx", "PY", "vf.rx_props", "c07", 300,
              funcs=(IN + "NoteEvent.ParsedData._regex", IN + "StarPowerEvent.ParsedData._regex", IN + "TrackEvent.ParsedData._regex"),
              bounds="all strings over U+0000-U+2FFFF (every length): SPEC<=L<=UP, negatives, pairwise exclusion, capture lemmas")]
    maxd = 3 if tier == "quick" else 5
    for kind, name, syms in ((0, "N", (0, 1, 2)), (1, "S", (0, 1)), (2, "E", (0,))):
        for sym in syms:
            obs.append(Ob(f"C07.decode.{name}.group{sym}", "CH", "harness.h_lines", "decode_line", 900,
                          {"VF_KIND": kind, "VF_SYM": sym, "VF_MAXD": maxd},
                          funcs=(IN + {0: "NoteEvent", 1: "SpecialEvent", 2: "TrackEvent"}[kind] + ".ParsedData.from_chart_line",),
                          bounds=f"symbolic ASCII digit string of <={maxd} digits through the real int(); failed match raises RegexNotMatchError only"))
    obs.append(Ob("C07.dispatch_history", "CH", "harness.h_track", "dispatcher_history", 600, funcs=("chartparse.track.parse_data_from_chart_lines",),
                  bounds="a line is decoded by the kinds of THIS section whatever an earlier section decided about the same text"))
    obs.append(Ob("C07.dispatcher", "CH", "harness.h_track", "dispatcher", 300, {"VF_NL": 3}, funcs=("chartparse.track.parse_data_from_chart_lines",),
                  bounds="3 lines x 3 kinds, arbitrary acceptance pattern, lines handed over as a list or a one-shot iterator: every accepted line "
                         "becomes exactly one datum of the first accepting kind whatever unrecognised lines precede it"))
    obs.append(Ob("C07.skip_real.1slot", "CH", "harness.h_lines", "skip_real", 900, {"VF_NSLOTS": 1},
                  funcs=(IN + "InstrumentTrack.from_chart_lines", "chartparse.track.parse_data_from_chart_lines"),
                  bounds="real recognisers: one of 11 lines of another shape (S 64, N 8, E two words, foreign, garbage) inserted at any of 5 positions of a "
                         "canonical section: no event of these kinds from it, every canonical line still decoded"))
    obs.append(Ob("C07.dispatch_wiring", "CH", "harness.h_track", "track_dispatch_wiring", 300, {"VF_TRACK": 0},
                  funcs=(IN + "InstrumentTrack._parse_data_from_chart_lines",)))
    obs.append(Ob("C07.framing", "CH", "harness.h_chart", "framing", 300, funcs=("chartparse.chart.Chart._partition_lines_by_data_section",),
                  bounds="3 sections x <=2 symbolic body lines of any length (blank lines included): this section's parser receives exactly its own body lines"))
    obs.append(Ob("C07.decode.E.digit-word", "CH", "harness.h_lines", "decode_line", 900, {"VF_KIND": 2, "VF_SYM": 1, "VF_MAXD": maxd},
                  funcs=(IN + "TrackEvent.ParsedData.from_chart_line",), bounds="a track event whose word is a symbolic digit string: stored verbatim as a string"))
    obs.append(Ob("C07.e_word_forms", "CH", "harness.h_lines", "e_word_forms", 300, funcs=("chartparse.instrument.TrackEvent.ParsedData.from_chart_line", "chartparse.instrument.InstrumentTrack.from_chart_lines"),
                  bounds="real recogniser and track parser on '<tick> = E <word>' with 14 unusual words (empty, quotes only, digits only, brackets, '=', ideographic space), with and without padding: decoded verbatim, rendered, no exception"))
    return obs


LEVEL_TEXT = ("The recognisers are decided as regular languages by z3 for strings of every length (inclusion of the canonical line "
              "languages, upper bounds, explicit negatives, pairwise exclusion) and the capture groups by concatenation-membership "
              "lemmas (unambiguous chunk boundaries, or first-in-priority-order for lazy/greedy ambiguities); decoding by CrossHair on "
              "the real from_chart_line with symbolic digit strings. 'other' because the central queries are unbounded in length.")
LEVEL_NOTE = "Alphabet capped at U+2FFFF; digits of the SPEC are ASCII; int() beyond CPython's 4300-digit limit is outside. Trusted: re._parser, z3 sequence theory, translator validated against re on solver witnesses."
TECHNIQUE = "z3 regular-language inclusion/disjointness and capture lemmas over the live patterns + CrossHair on from_chart_line"
ENGINE = "RX+CH"
EXPLANATION = ("Live _regex strings are parsed with re._parser and translated to z3 regex terms; SPEC (canonical N/S/E lines with blank "
               "padding and ASCII digit strings of any length) must be included, the language must stay inside an upper bound of the same "
               "shape, negatives (S <other index>, N 8/9, N two-digit index, E two words, missing fields) are excluded, and for every SPEC "
               "line the capture groups equal the written tick / index / length / word.")
BOUNDS = "all strings over U+0000-U+2FFFF; decode: <=3 (quick) / <=5 (thorough) digits symbolic"
OUTSIDE = "code points above U+2FFFF; digit strings beyond the interpreter's int() limit"
ASSUMPTIONS = ["re.match semantics: first parse in backtracking priority order; `$` matches at end or before one trailing newline", S1]
