"""C10 - metadata fields decode independently, verbatim, with documented defaults."""
from vf.runner import Ob
from .common import *  # noqa: F401,F403

LEVEL = "other"
MD = "chartparse.metadata."


def obligations(tier):
    obs = [Ob("C10.rx", "PY", "vf.rx_props", "c10", 600, funcs=(MD + "_field_parsing_specs[*].regex", MD + "_FieldParsingSpec.make_field_regex"),
              bounds="all strings: 24 acceptance + capture lemmas (greedy optional quote, lazy value), 276 pairwise disjointness queries")]
    firsts = [0, 1, 2, 8] if tier == "quick" else list(range(24))
    for f in firsts:
        obs.append(Ob(f"C10.fields.first{f}", "CH", "harness.h_metadata", "metadata_fields", 900, {"VF_FIRST": f, "VF_NLINES": 2},
                      funcs=(MD + "Metadata.from_chart_lines",), bounds="2 token lines (+ optional garbage line): first field fixed, second symbolic over all 24; symbolic values"))
    obs.append(Ob("C10.twice", "CH", "harness.h_extra", "metadata_twice", 900, funcs=(MD + "Metadata.from_chart_lines",),
                  bounds="two sections parsed in a row (real lines, any subsets of 3 optional fields, first parse possibly failing half-way): the second sees only its own lines and the defaults"))
    obs.append(Ob("C10.player2", "CH", "harness.h_extra", "player2_any", 300, funcs=(MD + "_field_parsing_specs['player2']",),
                  bounds="9 Player2 values, quoted or not: the member, or a documented error"))
    obs.append(Ob("C10.fields.no_resolution", "CH", "harness.h_metadata", "metadata_fields", 900, {"VF_FIRST": 12, "VF_NLINES": 2},
                  funcs=(MD + "Metadata.from_chart_lines",), bounds="absent Resolution -> MissingRequiredField unless the second line supplies it"))
    for strf in ([8, 12] if tier == "quick" else [6, 7, 8, 9, 12, 13, 23]):
        obs.append(Ob(f"C10.real_lines.field{strf}", "CH", "harness.h_metadata", "metadata_real_lines", 900, {"VF_STRF": strf, "VF_NMAX": 2},
                      funcs=(MD + "Metadata.from_chart_lines", MD + "_field_parsing_specs[*].regex_prog"),
                      bounds="real recognisers on quoted values assembled from <=2 tokens of {quote, letter, blank, '=', 'Offset = 7', non-ASCII, 'Resolution = 9'}, both line orders, padding"))
    if tier == "thorough":
        for k0 in range(7):
            obs.append(Ob(f"C10.real_lines.3tokens.first{k0}", "CH", "harness.h_metadata", "metadata_real_lines", 1500, {"VF_STRF": 8, "VF_NMAX": 3, "VF_K0": k0},
                          funcs=(MD + "Metadata.from_chart_lines",), bounds="values of <=3 tokens, first token fixed per partition"))
        for f in (0, 2, 8):
            obs.append(Ob(f"C10.fields3.first{f}", "CH", "harness.h_metadata", "metadata_fields", 1800, {"VF_FIRST": f, "VF_NLINES": 3},
                          funcs=(MD + "Metadata.from_chart_lines",), bounds="3 token lines"))
    obs.append(Ob("C10.framing", "CH", "harness.h_chart", "framing", 300, funcs=("chartparse.chart.Chart._partition_lines_by_data_section",),
                  bounds="3 sections x <=2 symbolic body lines of any length (blank lines included): this section's parser receives exactly its own body lines"))
    obs.append(Ob("C10.by_path", "CH", "harness.h_chart", "route_by_path", 600, {"VF_NSEC": 1, "VF_NPARTS": 16, "VF_PART": 5},
                  funcs=("chartparse.chart.Chart.from_filepath", "chartparse.chart.Chart.from_file"),
                  bounds="the [Song] parser receives exactly the [Song] body lines, by path, with the library's logger at WARNING or DEBUG"))
    return obs


LEVEL_TEXT = ("Each field's recogniser is decided for all strings by z3: canonical lines accepted, captured value = the text between one pair "
              "of quotes verbatim (priority argument for the greedy optional quotes and the lazy value), and no string is a line of two "
              "fields (276 queries). CrossHair executes the real from_chart_lines over token lines for defaults, first-match and decoding.")
LEVEL_NOTE = "Numeric values are ASCII digit strings (all the recogniser can capture in the SPEC); >3 fields at once rely on the RX non-interference. Trusted: re semantics, S1, S7'."
TECHNIQUE = "z3 regular-language and capture-priority lemmas over the 24 live field patterns + CrossHair on Metadata.from_chart_lines"
ENGINE = "RX+CH"
EXPLANATION = "729 z3 queries over the live field regexes + CrossHair harness on token lines; see obligation_table"
BOUNDS = "all strings for recognition/capture/non-interference; 2 (quick) / 3 (thorough) lines in CH"
OUTSIDE = "unquoted string values; values containing a newline"
ASSUMPTIONS = [S1, "S7': recognisers abstracted to token lines in the CH harness (justified by C10.rx)"]
