"""C04 - strum / HOPO / tap state follows the natural-HOPO rule and flags."""
from vf.runner import Ob
from .common import *  # noqa: F401,F403
from .common import _ned

LEVEL = "model_checking"
IN, TK = "chartparse.instrument.", "chartparse.tick."


def obligations(tier):
    obs = [Ob("C04.K6.triplet", "PY", "vf.fk_props", "k6", 600, funcs=(TK + "note_duration_to_ticks", TK + "NoteDuration.EIGHTH_TRIPLET"),
              bounds="bit-precise binary64, 1<=R<=1e8: round(R/3) == (R+1)//3")]
    if tier == "quick":
        for p in range(8):
            obs.append(Ob(f"C04.hopo.96pairs.part{p}", "CH", "harness.h_instrument", "hopo_state", 600, {"VF_PAIRS": 96, "VF_NPARTS": 8, "VF_PART": p},
                          funcs=(IN + "NoteEvent._compute_hopo_state", IN + "Note.is_chord"), bounds="12 of 96 note pairs; R, tick, gap symbolic, 4 flag combos, first/later"))
    else:
        for p in range(32):
            obs.append(Ob(f"C04.hopo.1024pairs.part{p}", "CH", "harness.h_instrument", "hopo_state", 1500, {"VF_PAIRS": 1024, "VF_NPARTS": 32, "VF_PART": p},
                          funcs=(IN + "NoteEvent._compute_hopo_state", IN + "Note.is_chord"), bounds="32 of all 1024 ordered note pairs"))
    obs += _ned("C04.flags_dataflow", tier, (IN + "NoteEvent.from_parsed_data",))
    idxs = ["0,1", "0,6,1", "2,2,5"] if tier == "quick" else ["0,1", "0,6,1", "2,2,5", "7,0", "0,1,5", "3,6", "1,2,2"]
    for ix in idxs:
        obs.append(Ob(f"C04.integrated.note_section[{ix}]", "CH", "harness.h_integrated", "note_section", 1200, {"VF_IDX": ix, "VF_ORDER": 2},
                      funcs=(IN + "InstrumentTrack.from_chart_lines", IN + "NoteEvent._compute_hopo_state"), bounds="symbolic resolution and gaps through the real parser"))
    obs.append(Ob("C04.framing", "CH", "harness.h_chart", "framing", 300, funcs=("chartparse.chart.Chart._partition_lines_by_data_section",),
                  bounds="3 sections x <=2 symbolic body lines of any length (blank lines included): this section's parser receives exactly its own body lines"))
    obs.append(Ob("C04.hopo_history", "CH", "harness.h_instrument", "hopo_history", 900, funcs=(IN + "NoteEvent._compute_hopo_state", TK + "note_duration_to_ticks (real)"),
                  bounds="each of 96 note pairs in its own fresh interpreter, natively: the pair judged over a sequence of 9 resolutions (192, 480, 100, 1, 2, 3, 960, again 192, 480) x 13 distances x forced: every decision follows its own resolution"))
    obs.append(Ob("C04.hopo_twice", "CH", "harness.h_instrument", "hopo_twice", 900, funcs=(IN + "NoteEvent._compute_hopo_state",),
                  bounds="the same note pair at the same distance judged at two symbolic resolutions in one process (96 note pairs): each decision follows its own resolution"))
    return obs


LEVEL_TEXT = ("The threshold lemma is decided bit-precisely by cvc5 on the live expression; the rule itself by CrossHair on the real "
              "_compute_hopo_state for symbolic resolution/tick/gap (so threshold-1/threshold/threshold+1 are solver cases) over "
              "note pairs, flags and positions; composition through the flag-collection dataflow and integrated runs.")
LEVEL_NOTE = "K6 summary (R+1)//3 replaces the float rounding inside CH harnesses; forced first note is rejected input (ValueError). Trusted: E3, S1-S5."
TECHNIQUE = "cvc5 QF_BVFP lemma on the live rounding expression + CrossHair symbolic execution of the HOPO rule"
ENGINE = "FK+CH"
EXPLANATION = "see obligation_table"
BOUNDS = "R<=1e8 for K6 (+ the live function on 3020 resolutions); 96 (quick) / 1024 (thorough) ordered note pairs; ints unbounded; two resolutions in one process (symbolic) and a 9-resolution history per note pair (native)"
OUTSIDE = "R>1e8; the accidental enum member Note.Self"
ASSUMPTIONS = [S1, S2, S5, E3]
