"""C12 - time is a non-decreasing function of tick across the whole chart."""
from vf.runner import Ob
from .common import _sync_section, _two_maps, _e2e  # noqa: F401
from .common import *  # noqa: F401,F403

LEVEL = "model_checking"
SY, TK, TM, IN = "chartparse.sync.", "chartparse.tick.", "chartparse.time.", "chartparse.instrument."


def obligations(tier):
    obs = [
        Ob("C12.K2-K3.kernel", "PY", "vf.fk_props", "kernel", 120, funcs=(TK + "seconds_from_ticks_at_bpm",),
           bounds="monotone structure + strict step for n*R<=3e10, time<=1e6 s"),
        Ob("C12.glue", "PY", "vf.fk_props", "glue", 60, bounds="G3 strictness, G4 chain"),
        Ob("C12.bpm_event_dataflow", "CH", "harness.h_sync", "bpm_event_dataflow", 120,
           funcs=(SY + "BPMEvent.from_parsed_data",), bounds="next tempo event uses the same composition as an in-segment tick"),
        Ob("C12.hint_invisible", "CH", "harness.h_sync", "hint_invisible", 240, {"VF_K": 3},
           funcs=(SY + "BPMEvents.timestamp_at_tick",), bounds="equal ticks -> identical times whatever the hint (track)"),
    ]
    for k in ([2, 3] if tier == "quick" else [1, 2, 3, 4]):
        obs.append(Ob(f"C12.monotone_pair.K{k}", "CH", "harness.h_sync", "monotone_pair", 300, {"VF_K": k},
                      funcs=(SY + "BPMEvents.timestamp_at_tick", SY + "BPMEvent.from_parsed_data", "chartparse.track.build_events_from_data"),
                      bounds=f"K={k} tempo events built by the real builder over a monotone-UF clock; all tick pairs a<=b"))
        obs.append(Ob(f"C12.timestamp_dataflow.K{k}", "CH", "harness.h_sync", "timestamp_at_tick_dataflow", 240, {"VF_K": k},
                      funcs=(SY + "BPMEvents.timestamp_at_tick",)))
    obs.append(Ob("C12.long_map.index.K10", "CH", "harness.h_big", "index_big", 900, {"VF_KB": 10}, funcs=(SY + "BPMEvents._index_of_proximal_event",),
                  bounds="10 tempo events with symbolic ticks, every hint"))
    obs.append(Ob("C12.kernel_sequence", "CH", "harness.h_extra", "kernel_sequence", 300, funcs=(TK + "seconds_from_ticks_at_bpm (real, native)",),
                  bounds="the real kernel twice in a row on solver-chosen arguments (same tempo, other resolution): no state carried over"))
    obs.append(Ob("C12.bpm_event_dataflow.uf", "CH", "harness.h_extra", "bpm_event_dataflow_uf", 300, funcs=(SY + "BPMEvent.from_parsed_data",),
                  bounds="sub-microsecond segments (clock value 0): the tempo event's stamp is the same composition as an in-segment tick"))
    obs.append(Ob("C12.anchors_ignored", "CH", "harness.h_extra", "anchors_do_not_move_time", 600, funcs=(SY + "SyncTrack.from_chart_lines",),
                  bounds="an anchor line with an arbitrary microsecond value never changes any tempo / signature timestamp"))
    for ix in (["0,1"] if tier == "quick" else ["0,1", "7,2", "0,6,1"]):
        obs.append(Ob(f"C12.note_end_after_start[{ix}]", "CH", "harness.h_integrated", "note_section", 900, {"VF_IDX": ix, "VF_ORDER": 0},
                      funcs=(IN + "NoteEvent.from_parsed_data",), bounds="end time = time(tick+longest sustain) >= start"))
    obs.append(Ob("C12.note_end_after_start[0,1;equal lengths]", "CH", "harness.h_integrated", "note_section", 900, {"VF_IDX": "0,1", "VF_ORDER": 0, "VF_EQSUS": 1},
                  funcs=(IN + "NoteEvent.from_parsed_data", IN + "InstrumentTrack.from_chart_lines"),
                  bounds="two notes carrying the same (one symbolic) length, one of them possibly spanning the tempo change"))
    obs += _sync_section("C12", ["0,1,3"]) + [_two_maps("C12")]
    obs.append(Ob("C12.time_add", "CH", "harness.h_extra", "time_add_unit", 300, funcs=("chartparse.time.add",),
                  bounds="6 representative stamps (incl. several days) x 8 offsets x float/timedelta form: exact timedelta addition"))
    obs.append(Ob("C12.witness_replay", "PY", "vf.fk_witness", "check", 300,
                  funcs=("chartparse.sync.SyncTrack.from_chart_lines", "chartparse.sync.BPMEvents.timestamp_at_tick_no_optimize_return", "chartparse.tick.seconds_from_ticks_at_bpm (real arithmetic)", "chartparse.time.add"),
                  bounds="z3 generates 80 integer witnesses in 16 rare regions (sub-microsecond ticks before a tempo change, long runs of them, a tempo change more than a day into the chart, "
                         "exact half-microsecond offsets, tempo ratios of 10^9, the tempo in force restated off the microsecond grid); each is replayed through the real parser and query (native floats) "
                         "as a tempo map and as a whole chart with events of every kind in two tracks, and a third of them again under a changed thread-local decimal context; judged against exact rationals: "
                         "|time-exact| <= 0.501 us per segment, tick 0 = 0, non-decreasing, strictly increasing where every tick lasts >= 2 us, every stored time = the un-hinted query of its tick"))
    obs.append(Ob("C12.long_history", "CH", "harness.h_hist", "long_history", 1200,
                  funcs=("chartparse.chart.Chart.from_file (whole pipeline, native execution)",),
                  bounds="30/120/400 parses in one fresh interpreter alternating two of four texts that share every tick but differ in tempo map / resolution, "
                         "each chart dropped at once (freed objects, recycled addresses): every parse identical to the first parse of its text"))
    obs += _e2e("C12", [1])
    return obs


LEVEL_TEXT = ("Monotonicity is decided structurally and numerically on the live kernel (each rounded operation monotone in ticks, "
              "positive tick-free factors: z3 QF_NRA), the strict step lemma K3, linear glue G3/G4, and a CrossHair harness that "
              "builds K tempo events with the real builder over an axiomatised monotone clock and compares all tick pairs.")
LEVEL_NOTE = "Trusted: E1 (monotone microsecond conversion), E3, S1-S5. Strictness claimed for BPM*resolution<=3e7 and time<=1e6 s."
TECHNIQUE = "z3 lemmas on the live kernel AST + CrossHair symbolic execution of builder/lookup over a monotone uninterpreted clock + z3-generated boundary witnesses replayed through the real query"
ENGINE = "FK+CH"
EXPLANATION = "K2/K3/G3/G4 + monotone_pair harness; see obligation_table"
BOUNDS = "numeric ranges of C01; K<=3/4 tempo events in CH; 80 boundary witnesses in 16 regions"
OUTSIDE = "as C01"
ASSUMPTIONS = [S1, S3, S4, E1, E3]
