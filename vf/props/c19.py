"""C19 - a parsed chart is an immutable value under all read-only use."""
from vf.runner import Ob
from .common import *  # noqa: F401,F403

LEVEL = "model_checking"
CH_ = "chartparse.chart."


def obligations(tier):
    fns = (CH_ + "Chart.from_file", CH_ + "Chart.notes_per_second", CH_ + "Chart.__getitem__", CH_ + "Chart.__str__",
           "chartparse.sync.BPMEvents.timestamp_at_tick", "chartparse.util.DictPropertiesEqMixin.__eq__",
           "chartparse.instrument.InstrumentTrack.last_note_end_timestamp")
    obs = [Ob("C19.one_op", "CH", "harness.h_chart", "immutability", 1500, funcs=fns,
              bounds="one read-only operation of 9 kinds with symbolic arguments (3 representative instruments x 4 difficulties, 6 bound forms) on a parsed chart; full observation (every public datum, str()/repr() of the chart and of its parts) + twin equality before/after"),
           Ob("C19.rejects_assignment", "CH", "harness.h_chart", "rejects_assignment", 600, funcs=("dataclass(frozen=True) on every event / track / metadata class",),
              bounds="every declared field of every event, track and metadata class")]
    for cv, what in ((1, "want_tracks=[]"), (2, "one selected track")):
        obs.append(Ob(f"C19.one_op.parsed_with[{what}]", "CH", "harness.h_chart", "immutability", 1500, {"VF_CV": cv}, funcs=fns,
                      bounds=f"the chart under test was parsed with {what}"))
    obs.append(Ob("C19.one_op.chart[player2=rhythm,bass-only]", "CH", "harness.h_chart", "immutability", 1500, {"VF_CV": 3}, funcs=fns,
                  bounds="a chart whose [Song] says Player2 = rhythm and which has DoubleBass tracks but no DoubleRhythm track; look-ups by RHYTHM / BASS / GUITAR"))
    obs.append(Ob("C19.one_op.chart[note-less tracks]", "CH", "harness.h_chart", "immutability", 1500, {"VF_CV": 5}, funcs=fns,
                  bounds="a chart with tracks that have no notes (a phrase only / an empty section) next to tracks with notes; every operation kind, failing rate queries included"))
    obs.append(Ob("C19.one_op.chart[600-note track]", "CH", "harness.h_chart", "immutability", 2400, {"VF_CV": 4, "VF_OP1SET": "0,1" if tier == "quick" else "0,1,2,3,4,5,6,7,8"}, funcs=fns,
                  bounds="a chart with a 600-note track (size-triggered behaviour); rate queries in all bound forms with tick bounds <= 2, look-ups"))
    if tier == "thorough":
        for p in range(10):
            obs.append(Ob(f"C19.one_op.instrument{p}", "CH", "harness.h_chart", "immutability", 1500, {"VF_ALLINSTR": 1, "VF_NPARTS": 10, "VF_PART": p}, funcs=fns,
                          bounds="all 10 instruments (one per partition)"))
        for p in range(9):
            for q in ("0", "1,7,8", "2,3,4,5,6"):
                obs.append(Ob(f"C19.two_ops.first{p}.then[{q}]", "CH", "harness.h_chart", "immutability2", 3000, {"VF_OP1SET": str(p), "VF_OP2SET": q}, funcs=fns,
                              bounds="sequences of two operations, kinds fixed per partition, all argument cases symbolic"))
    else:
        obs.append(Ob("C19.two_ops.lookups", "CH", "harness.h_chart", "immutability2", 1500, {"VF_OP1SET": "1,8", "VF_OP2SET": "1,5,8"}, funcs=fns,
                      bounds="subscript / membership by an instrument followed by subscript / comparison+hash / membership"))
        obs.append(Ob("C19.two_ops.then_nps", "CH", "harness.h_chart", "immutability2", 1500, {"VF_OP1SET": "4,6", "VF_OP2SET": "0"}, funcs=fns,
                      bounds="rendering / derived attributes followed by a rate query (all argument forms)"))
    return obs


LEVEL_TEXT = ("CrossHair drives a really parsed chart (deep-copied per path) through read-only operations chosen by symbolic parameters and "
              "compares a full public observation and equality with an identically parsed twin before and after; setattr on every declared "
              "field of every event/track class must raise.")
LEVEL_NOTE = "One fixed small chart (2 tracks); operation sequences of length 1 (quick) / 2 (thorough). Trusted: S1, S3, S4; copy.deepcopy reproduces the parsed object graph."
TECHNIQUE = CH_TECH
EXPLANATION = "see obligation_table"
BOUNDS = "operation sequences of length <=1 (quick) / <=2 (thorough); all instruments in thorough; 6 chart variants (default, empty selection, one selected track, Player2=rhythm with bass only, 600-note track, note-less tracks)"
OUTSIDE = "longer sequences; charts of other shapes"
ASSUMPTIONS = [S1, S3, S4]
