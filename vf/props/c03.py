"""C03 - sustains, end tick, end time and last-note-end are faithful to the lines."""
from vf.runner import Ob
from .common import _sync_section, _two_maps, _e2e  # noqa: F401
from .common import *  # noqa: F401,F403
from .common import _ned

LEVEL = "model_checking"
IN = "chartparse.instrument."


def obligations(tier):
    obs = [Ob("C03.sustain.M1", "CH", "harness.h_instrument", "complex_sustain", 300, {"VF_M": 1}, funcs=(IN + "complex_sustain_from_parsed_datas", IN + "_refined_sustain_tuple")),
           Ob("C03.sustain.M2", "CH", "harness.h_instrument", "complex_sustain", 300, {"VF_M": 2}, funcs=(IN + "complex_sustain_from_parsed_datas", IN + "_refined_sustain_tuple"))]
    for f in range(8):
        obs.append(Ob(f"C03.sustain.M3.first{f}", "CH", "harness.h_instrument", "complex_sustain", 900, {"VF_M": 3, "VF_FIRST": f},
                      funcs=(IN + "complex_sustain_from_parsed_datas", IN + "_refined_sustain_tuple", IN + "NoteEvent._longest_sustain", IN + "NoteEvent._end_tick"),
                      bounds="3 data at one tick, first index fixed per partition, lengths symbolic"))
    if tier == "thorough":
        for f in range(5):
            for g in range(5):
                if f != g:
                    obs.append(Ob(f"C03.sustain.M4.first{f}{g}", "CH", "harness.h_instrument", "complex_sustain", 1500,
                                  {"VF_M": 4, "VF_FIRST": f, "VF_SECOND": g}, funcs=(IN + "complex_sustain_from_parsed_datas",),
                                  bounds="4 data, first two indices fixed per partition"))
    obs.append(Ob("C03.long_map.index.K10", "CH", "harness.h_big", "index_big", 900, {"VF_KB": 10}, funcs=("chartparse.sync.BPMEvents._index_of_proximal_event",),
                  bounds="end times are tempo-map lookups: 10 tempo events with symbolic ticks, every hint (sustains spanning many tempo changes)"))
    obs += [
        Ob("C03.sustain_subsets", "CH", "harness.h_instrument", "sustain_subsets", 900, funcs=(IN + "complex_sustain_from_parsed_datas", IN + "_refined_sustain_tuple"),
           bounds="all 31 lane subsets (up to 5 lane lines + a flag line), one symbolic base length, one lane differing by a symbolic delta"),
        Ob("C03.longest_and_end", "CH", "harness.h_instrument", "longest_and_end", 300, funcs=(IN + "NoteEvent.longest_sustain", IN + "NoteEvent.end_tick", IN + "NoteEvent._longest_sustain", IN + "NoteEvent._end_tick")),
        Ob("C03.last_note_end", "CH", "harness.h_instrument", "last_note_end", 120, funcs=(IN + "InstrumentTrack.last_note_end_timestamp",), bounds="<=4 notes, symbolic end times"),
    ]
    obs += _ned("C03.note_event_dataflow", tier, (IN + "NoteEvent.from_parsed_data",))
    idxs = ["0,1", "7", "0,5,4"] if tier == "quick" else ["0,1", "7", "0,5,4", "7,6", "1,2,3", "0,0", "4,3", "0,1,2"]
    for ix in idxs:
        obs.append(Ob(f"C03.integrated.note_section[{ix}]", "CH", "harness.h_integrated", "note_section", 1200, {"VF_IDX": ix, "VF_ORDER": 1},
                      funcs=(IN + "InstrumentTrack.from_chart_lines", IN + "NoteEvent.from_parsed_data"),
                      bounds="sustain/end tick/end time/last-note-end through the real parser, sustains spanning the tempo change"))
    obs.append(Ob("C03.integrated.note_section[0,1;equal lengths]", "CH", "harness.h_integrated", "note_section", 900, {"VF_IDX": "0,1", "VF_ORDER": 0, "VF_EQSUS": 1},
                  funcs=(IN + "InstrumentTrack.from_chart_lines", IN + "NoteEvent.from_parsed_data"),
                  bounds="two notes carrying the same (one symbolic) length, one of them possibly spanning the tempo change: a result shared between equal lengths is visible"))
    obs.append(Ob("C03.long_history", "CH", "harness.h_hist", "long_history", 1200,
                  funcs=("chartparse.chart.Chart.from_file (whole pipeline, native execution)",),
                  bounds="30/120/400 parses in one fresh interpreter alternating two of four texts that share every tick but differ in tempo map / resolution, "
                         "each chart dropped at once (freed objects, recycled addresses): every parse identical to the first parse of its text"))
    obs.append(Ob("C03.framing", "CH", "harness.h_chart", "framing", 300, funcs=("chartparse.chart.Chart._partition_lines_by_data_section",),
                  bounds="3 sections x <=2 symbolic body lines of any length (blank lines included): this section's parser receives exactly its own body lines"))
    obs.append(Ob("C03.decode.N.sustain", "CH", "harness.h_lines", "decode_line", 900, {"VF_KIND": 0, "VF_SYM": 1, "VF_MAXD": 3 if tier == "quick" else 5},
                  funcs=("chartparse.instrument.NoteEvent.ParsedData.from_chart_line",), bounds="the written length as a symbolic ASCII digit string (leading zeros included): decoded to its integer value"))
    return obs


LEVEL_TEXT = ("Bounded symbolic execution of the real sustain coalescing, derived properties and end-time dataflow with "
              "solver-integer lengths (equal / partly zero / all different are solver cases, not samples), plus integrated runs.")
LEVEL_NOTE = ("Precondition (documented undefined behaviour, not claimed): an open-note line is the first datum of its tick and is not "
              "mixed with lane lines; one line per lane per tick. Trusted: S1-S5, S7'.")
TECHNIQUE = CH_TECH
EXPLANATION = "see obligation_table"
BOUNDS = "<=3 (quick) / <=4 (thorough) data per tick; <=4 notes for last-note-end; ints unbounded"
OUTSIDE = "open-note line after other lines of its tick or mixed with lanes (docstring: undefined); C12 lemma for end>=start over real floats"
ASSUMPTIONS = [S1, S2, S3, S4, S5]
