"""C16 - notes_per_second is count-in-closed-interval over interval length."""
from vf.runner import Ob
from .common import *  # noqa: F401,F403

LEVEL = "model_checking"
CH_ = "chartparse.chart."


def obligations(tier):
    obs = []
    for nn in ([1, 2] if tier == "quick" else [0, 1, 2, 3]):
        obs.append(Ob(f"C16.nps.N{nn}", "CH", "harness.h_chart", "nps", 900, {"VF_NN": nn},
                      funcs=(CH_ + "Chart.notes_per_second", CH_ + "Chart._notes_per_second", "chartparse.instrument.InstrumentTrack.last_note_end_timestamp"),
                      bounds=f"<={nn} notes with symbolic times, six bound forms (omitted / tick / timestamp / mixed), present or absent track"))
    obs.append(Ob("C16.two_queries", "CH", "harness.h_extra", "nps_two_tracks", 600, funcs=(CH_ + "Chart.notes_per_second",),
                  bounds="two consecutive queries with the same bounds on two tracks with different (symbolic) last-note ends, either order"))
    obs.append(Ob("C16.last_note_end.integrated", "CH", "harness.h_integrated", "note_section", 1200, {"VF_IDX": "0,1", "VF_ORDER": 0},
                  funcs=("chartparse.instrument.InstrumentTrack.from_chart_lines", "chartparse.instrument.InstrumentTrack.last_note_end_timestamp"),
                  bounds="omitted end = last note end: end times through the real parser, lanes with different (possibly zero) lengths"))
    obs.append(Ob("C16.long_map.index.K10", "CH", "harness.h_big", "index_big", 900, {"VF_KB": 10}, funcs=("chartparse.sync.BPMEvents._index_of_proximal_event",),
                  bounds="tick bounds are tempo-map lookups: 10 tempo events"))
    obs.append(Ob("C16.last_note_end", "CH", "harness.h_instrument", "last_note_end", 120, funcs=("chartparse.instrument.InstrumentTrack.last_note_end_timestamp",)))
    obs.append(Ob("C16.real_chart", "CH", "harness.h_chart", "nps_real", 900, funcs=(CH_ + "Chart.notes_per_second", "chartparse.sync.BPMEvents.timestamp_at_tick_no_optimize_return"),
                  bounds="parsed chart, symbolic tick bounds through the real tempo lookup over a linear clock"))
    return obs


LEVEL_TEXT = ("CrossHair executes the real notes_per_second over an abstract integer-microsecond clock: the count is the number of notes with "
              "start<=time<=end (closed, boundary coincidences are solver cases), the divisor end-start, tick bounds resolved through the tempo "
              "map, defaults 0 / last note end, ValueError exactly for non-positive length, absent track, note-less track.")
LEVEL_NOTE = "total_seconds() and the final int/float division are abstracted to a tagged (count, microseconds) pair (S3). Trusted: S1, S3, S4."
TECHNIQUE = CH_TECH
EXPLANATION = "see obligation_table"
BOUNDS = "<=2 (quick) / <=3 (thorough) notes in any time order; positional and keyword bound forms; [Song] Offset symbolic; ints unbounded"
OUTSIDE = "the float value of count/seconds itself (one IEEE division)"
ASSUMPTIONS = [S1, S3, S4]
