"""C01 - event timestamps equal the exact tempo-map time of their tick."""
from vf.runner import Ob
from .common import _sync_section, _two_maps, _e2e  # noqa: F401
from .common import *  # noqa: F401,F403
from .common import _ned

LEVEL = "model_checking"
SY, TK, TM, IN, GL, TR = "chartparse.sync.", "chartparse.tick.", "chartparse.time.", "chartparse.instrument.", "chartparse.globalevents.", "chartparse.track."


def obligations(tier):
    obs = [
        Ob("C01.K1-K4.kernel", "PY", "vf.fk_props", "kernel", 120, funcs=(TK + "seconds_from_ticks_at_bpm",),
           bounds="d<=2e8, n<=1e9, R<=1e8, time<=1e6 s; axiomatised rounding (QF_NRA)"),
        Ob("C01.K5.decode", "PY", "vf.fk_props", "k5", 300, args={"lengths": [1, 2, 3, 4, 5, 6, 7] if tier == "quick" else [1, 2, 3, 4, 5, 6, 7, 8, 9]},
           funcs=(SY + "BPMEvent.from_parsed_data (decode prefix)", SY + "BPMEvent.__post_init__"),
           bounds="bit-precise binary64, every digit string of the listed lengths"),
        Ob("C01.glue", "PY", "vf.fk_props", "glue", 60, bounds="G1-G4, linear real arithmetic, unbounded"),
        Ob("C01.kernel_guards", "CH", "harness.h_sync", "kernel_guards", 60, funcs=(TK + "seconds_from_ticks_at_bpm (guard prefix)",)),
        Ob("C01.bpm_event_dataflow", "CH", "harness.h_sync", "bpm_event_dataflow", 120,
           funcs=(SY + "BPMEvent.from_parsed_data", TM + "add", TK + "between")),
        Ob("C01.no_optimize_return", "CH", "harness.h_sync", "no_optimize_return", 120, {"VF_K": 3},
           funcs=(SY + "BPMEvents.timestamp_at_tick_no_optimize_return",)),
    ]
    for k in ([1, 3] if tier == "quick" else [1, 2, 3, 4, 5]):
        obs.append(Ob(f"C01.timestamp_dataflow.K{k}", "CH", "harness.h_sync", "timestamp_at_tick_dataflow", 240, {"VF_K": k},
                      funcs=(SY + "BPMEvents.timestamp_at_tick", SY + "BPMEvents._index_of_proximal_event", TM + "add", TK + "between"),
                      bounds=f"K={k} tempo events, symbolic ticks/stamps/hint/resolution"))
    for kb in ([18] if tier == "quick" else [18, 26, 34]):
        obs.append(Ob(f"C01.long_map.index.K{kb}", "CH", "harness.h_big", "index_big", 2400, {"VF_KB": kb},
                      funcs=(SY + "BPMEvents._index_of_proximal_event",), bounds=f"{kb} tempo events with symbolic ticks, every hint"))
    if tier == "thorough":
        obs.append(Ob("C01.long_map.timestamp.K18", "CH", "harness.h_big", "timestamp_big", 2400, {"VF_KB": 18}, funcs=(SY + "BPMEvents.timestamp_at_tick",)))
    obs.append(Ob("C01.kernel_sequence", "CH", "harness.h_extra", "kernel_sequence", 300, funcs=(TK + "seconds_from_ticks_at_bpm (real, native)",),
                  bounds="the real kernel twice in a row on solver-chosen arguments from 10 cases (same tempo / other resolution, inexact thousandths, extremes): each result within 2^-50 of the exact value"))
    obs.append(Ob("C01.bpm_event_dataflow.uf", "CH", "harness.h_extra", "bpm_event_dataflow_uf", 300, funcs=(SY + "BPMEvent.from_parsed_data",),
                  bounds="arbitrary clock value for the segment (0 us included): next stamp = previous stamp + exactly that"))
    obs.append(Ob("C01.time_add", "CH", "harness.h_extra", "time_add_unit", 300, funcs=(TM + "add",),
                  bounds="6 representative stamps (incl. several days) x 8 offsets x float/timedelta form: exact timedelta addition"))
    obs.append(Ob("C01.anchors_ignored", "CH", "harness.h_extra", "anchors_do_not_move_time", 600, funcs=(SY + "SyncTrack.from_chart_lines",),
                  bounds="an anchor line with an arbitrary microsecond value never changes any tempo / signature / queried timestamp"))
    for kind in range(6):
        obs.append(Ob(f"C01.constructor.{['TS','SP','TE','TXT','SEC','LYR'][kind]}", "CH", "harness.h_events", "constructor_dataflow", 120,
                      {"VF_KIND": kind}, funcs=(SY + "TimeSignatureEvent.from_parsed_data", IN + "SpecialEvent.from_parsed_data",
                                                IN + "TrackEvent.from_parsed_data", GL + "GlobalEvent.from_parsed_data")))
    obs += _ned("C01.note_event_dataflow", tier, (IN + "NoteEvent.from_parsed_data",))
    obs += _sync_section("C01", ["0,1,3", "0,2,1"]) + [_two_maps("C01")] + _e2e("C01", [3] if tier == "quick" else [0, 1, 3, 7], split=(3, 7))
    obs.append(Ob("C01.builder_threading", "CH", "harness.h_events", "builder_threading", 120, funcs=(TR + "build_events_from_data",)))
    idxs = ["0,1", "0,6,1"] if tier == "quick" else ["0,1", "0,6,1", "7,2", "3,3,4", "0,1,5"]
    for ix in idxs:
        obs.append(Ob(f"C01.integrated.note_section[{ix}]", "CH", "harness.h_integrated", "note_section", 900, {"VF_IDX": ix, "VF_ORDER": 2},
                      funcs=(IN + "InstrumentTrack.from_chart_lines", IN + "NoteEvent.from_parsed_data", SY + "BPMEvents.timestamp_at_tick"),
                      bounds="token lines, 2 tempo events, linear clock: stored times equal the clock's exact time"))
    obs.append(Ob("C01.long_history", "CH", "harness.h_hist", "long_history", 1200,
                  funcs=("chartparse.chart.Chart.from_file (whole pipeline, native execution)",),
                  bounds="30/120/400 parses in one fresh interpreter alternating two of four texts that share every tick but differ in tempo map / resolution, "
                         "each chart dropped at once (freed objects, recycled addresses): every parse identical to the first parse of its text"))
    obs.append(Ob("C01.witness_replay", "PY", "vf.fk_witness", "check", 300,
                  funcs=("chartparse.sync.SyncTrack.from_chart_lines", "chartparse.sync.BPMEvents.timestamp_at_tick_no_optimize_return", "chartparse.tick.seconds_from_ticks_at_bpm (real arithmetic)", "chartparse.time.add"),
                  bounds="z3 generates 80 integer witnesses in 16 rare regions (sub-microsecond ticks before a tempo change, long runs of them, a tempo change more than a day into the chart, "
                         "exact half-microsecond offsets, tempo ratios of 10^9, the tempo in force restated off the microsecond grid); each is replayed through the real parser and query (native floats) "
                         "as a tempo map and as a whole chart with events of every kind in two tracks, and a third of them again under a changed thread-local decimal context; judged against exact rationals: "
                         "|time-exact| <= 0.501 us per segment, tick 0 = 0, non-decreasing, strictly increasing where every tick lasts >= 2 us, every stored time = the un-hinted query of its tick"))
    obs.append(Ob("C01.lookup_file_scale", "CH", "harness.h_sync2", "lookup_file_scale", 600, funcs=("chartparse.sync.BPMEvents.timestamp_at_tick", "chartparse.sync.BPMEvents._index_of_proximal_event"),
                  bounds="tempo maps of 50..12000 events (beat-by-beat tempo-mapped songs): a late tick from hint 0, from a near hint, from the exact hint and un-hinted gives one answer; native execution, solver-chosen case"))
    return obs


LEVEL_TEXT = ("Composition of solver verdicts: bit-precise (cvc5 QF_BVFP) decode lemma, axiomatised-rounding (z3 QF_NRA) accuracy "
              "lemma of the live seconds kernel, CrossHair dataflow harnesses showing every stored/queried timestamp is "
              "stamp(governing event)+timedelta(seconds=kernel(distance,tempo,resolution)), and linear glue lemmas giving "
              "|time-exact|<=0.501us per segment for any number of segments by induction. Float rounding over all inputs "
              "cannot be settled by tests; the solver covers all n,R,d in the stated ranges.")
LEVEL_NOTE = ("B=0.501us (0.5 + float64 evaluation noise at <=1e6 s, which the property's quantifier sets aside). Trusted: E1-E3, "
              "S1-S5, composition argument of DESIGN 2.5 (wiring between engines).")
TECHNIQUE = "SMT lemmas on the live float kernel (cvc5 bit-precise, z3 relaxed reals) + CrossHair dataflow of the real lookup/constructors, whole [SyncTrack] and whole-chart harnesses on token lines + z3 glue lemmas + z3-generated boundary witnesses replayed through the real query"
ENGINE = "FK+CH"
EXPLANATION = "kernel lemmas K1-K5, dataflow harnesses, glue G1-G4; see obligation_table"
BOUNDS = "R<=1e8, n<=1e9 (BPM<=1e6), d<=2e8 ticks per segment, time<1e6 s; K<=3/5 tempo events in CH (any K by induction); whole chart: 5 sections, 2 tempo events, 2 notes; 80 boundary witnesses"
OUTSIDE = "R>1e8, n>1e9, times >=1e6 s; environment contracts E1-E3"
ASSUMPTIONS = [S1, S3, S4, S5, E1, E2, E3]
