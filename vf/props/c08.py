"""C08 - tempo, time-signature and anchor lines decode to exact values."""
from vf.runner import Ob
from .common import _sync_section, _two_maps, _e2e  # noqa: F401
from .common import *  # noqa: F401,F403

LEVEL = "model_checking"
SY = "chartparse.sync."


def obligations(tier):
    obs = [Ob("C08.rx", "PY", "vf.rx_props", "c08", 300, funcs=(SY + "BPMEvent.ParsedData._regex", SY + "TimeSignatureEvent.ParsedData._regex", SY + "AnchorEvent.ParsedData._regex"),
              bounds="all strings: SPEC<=L<=UP, exclusion, capture lemmas incl. the optional third TS field"),
           Ob("C08.K5.decode", "PY", "vf.fk_props", "k5", 600, args={"lengths": [1, 2, 3, 4, 5, 6, 7] if tier == "quick" else [1, 2, 3, 4, 5, 6, 7, 8, 9]},
              funcs=(SY + "BPMEvent.from_parsed_data (decode prefix)", SY + "BPMEvent.__post_init__"),
              bounds="bit-precise binary64 (cvc5): every digit string of 1..7 (quick) / 1..9 (thorough) digits decodes to RN(n/1000) and is accepted")]
    obs.append(Ob("C08.ts_value", "CH", "harness.h_sync", "time_signature_value", 600, {"VF_LMAX": 16 if tier == "quick" else 63},
                  funcs=(SY + "TimeSignatureEvent.from_parsed_data",), bounds="l<=16 (quick) / 63 (thorough); u unbounded"))
    obs.append(Ob("C08.anchor_value", "CH", "harness.h_sync", "anchor_value", 300, funcs=(SY + "AnchorEvent.from_parsed_data",), bounds="us<1e13 (CrossHair's own timedelta model)"))
    maxd = 3 if tier == "quick" else 5
    for kind, name, syms in ((3, "B", (0, 1)), (4, "TS", (0, 1, 2)), (5, "A", (0, 1))):
        for sym in syms:
            obs.append(Ob(f"C08.decode.{name}.group{sym}", "CH", "harness.h_lines", "decode_line", 900, {"VF_KIND": kind, "VF_SYM": sym, "VF_MAXD": maxd},
                          funcs=(SY + {3: "BPMEvent", 4: "TimeSignatureEvent", 5: "AnchorEvent"}[kind] + ".ParsedData.from_chart_line",),
                          bounds=f"symbolic ASCII digit string of <={maxd} digits; absent third TS group -> None"))
    obs.append(Ob("C08.bpm_event_dataflow", "CH", "harness.h_sync", "bpm_event_dataflow", 120, funcs=(SY + "BPMEvent.from_parsed_data",)))
    obs.append(Ob("C08.dispatch_wiring", "CH", "harness.h_track", "track_dispatch_wiring", 300, {"VF_TRACK": 1}, funcs=(SY + "SyncTrack._parse_data_from_chart_lines",)))
    obs += _sync_section("C08", ["0,1,3", "0,2,1", "1,1,1"] if tier == "quick" else ["0,1,3", "0,2,1", "1,1,1", "3,0,2", "2,2,0", "0,1"])
    obs.append(Ob("C08.framing", "CH", "harness.h_chart", "framing", 300, funcs=("chartparse.chart.Chart._partition_lines_by_data_section",),
                  bounds="3 sections x <=2 symbolic body lines of any length (blank lines included): this section's parser receives exactly its own body lines"))
    return obs


LEVEL_TEXT = ("Tempo decoding is decided bit-precisely (cvc5 QF_BVFP over the live decode expression, one query per digit count): the decoded "
              "float is the nearest to n/1000 and passes the 3-decimal validation; recognisers by z3 regex lemmas for all strings; value "
              "construction by CrossHair.")
LEVEL_NOTE = "Trusted: E2 (round(x,3) correctly rounded), E3, re semantics, S1, S5."
TECHNIQUE = "cvc5 bit-precise float lemma on the live decode AST + z3 regex lemmas + CrossHair value harnesses"
ENGINE = "FK+RX+CH"
EXPLANATION = "see obligation_table"
BOUNDS = "n<1e7 (quick) / <1e9 (thorough); l<=16/63; us<1e13; all strings for recognition; whole sync sections with <=3 tempo lines, exponents {0,1,2,3,5,9,16}, symbolic resolution"
OUTSIDE = "n>=1e9; anchor lines with trailing blanks (the statement does not promise padding for A lines)"
ASSUMPTIONS = [S1, S5, E2, E3]
