"""C14 - unrecognised lines are skipped locally; each line is claimed at most once."""
from vf.runner import Ob
from .common import *  # noqa: F401,F403

LEVEL = "model_checking"
TR = "chartparse.track."


def obligations(tier):
    obs = [Ob("C14.dispatcher", "CH", "harness.h_track", "dispatcher", 600, {"VF_NL": 4}, funcs=(TR + "parse_data_from_chart_lines",),
              bounds="4 lines x 3 kinds, arbitrary (overlapping) acceptance; exactly-one-list, one warning per rejected line, locality"),
           Ob("C14.rx.disjoint", "PY", "vf.rx_props", "c14", 300, funcs=("chartparse.sync.*.ParsedData._regex", "chartparse.instrument.*.ParsedData._regex"),
              bounds="all strings: 6 pairwise emptiness queries")]
    obs.append(Ob("C14.many_unparsable", "CH", "harness.h_extra", "many_unparsable", 900, funcs=(TR + "parse_data_from_chart_lines", "chartparse.exceptions.RegexNotMatchError"),
                  bounds="blocks of 1, 2, 24, 25, 26, 100, 1000 identical unparsable lines of 8 shapes (braces included) at any of 5 positions: parsed track unchanged, one warning each"))
    obs.append(Ob("C14.framing", "CH", "harness.h_chart", "framing", 300, funcs=("chartparse.chart.Chart._partition_lines_by_data_section",),
                  bounds="an unparsable body line of any content (header-like lines included) stays a body line of its own section"))
    obs.append(Ob("C14.history", "CH", "harness.h_track", "dispatcher_history", 600, funcs=(TR + "parse_data_from_chart_lines",),
                  bounds="two consecutive dispatches over the same 2 line texts with independent acceptance patterns: the second is unaffected by the first"))
    for t in range(3):
        obs.append(Ob(f"C14.wiring.track{t}", "CH", "harness.h_track", "track_dispatch_wiring", 300, {"VF_TRACK": t},
                      funcs=("chartparse.instrument.InstrumentTrack._parse_data_from_chart_lines", "chartparse.sync.SyncTrack._parse_data_from_chart_lines",
                             "chartparse.globalevents.GlobalEventsTrack._parse_data_from_chart_lines")))
    for t in ([0, 1, 2]):
        obs.append(Ob(f"C14.locality.track{t}", "CH", "harness.h_integrated", "garbage_locality", 900, {"VF_TRACK": t},
                      funcs=("chartparse.instrument.InstrumentTrack.from_chart_lines", "chartparse.sync.SyncTrack.from_chart_lines",
                             "chartparse.globalevents.GlobalEventsTrack.from_chart_lines"),
                      bounds="unparsable lines inserted (once or twice) at any of 5 positions of a 4-line section: parsed track unchanged, one warning each"))
    obs.append(Ob("C14.rx.instrument_lines", "PY", "vf.rx_props", "c07", 300, funcs=("chartparse.instrument.*.ParsedData._regex",),
                  bounds="all strings: lines with unsupported indices (N 8, N 9, S 64 ...) are outside every recogniser (L<=UP, negatives)"))
    if tier == "quick":
        obs.append(Ob("C14.skip_real.1slot", "CH", "harness.h_lines", "skip_real", 900, {"VF_NSLOTS": 1},
                      funcs=("chartparse.instrument.InstrumentTrack.from_chart_lines", TR + "parse_data_from_chart_lines"),
                      bounds="real recognisers: one of 11 unsupported/foreign/garbage lines inserted at any of 5 positions: parsed track unchanged, one warning"))
    else:
        for k0 in range(1, 12):
            obs.append(Ob(f"C14.skip_real.2slots.first{k0}", "CH", "harness.h_lines", "skip_real", 1500, {"VF_NSLOTS": 2, "VF_K0": k0},
                          funcs=("chartparse.instrument.InstrumentTrack.from_chart_lines", TR + "parse_data_from_chart_lines"),
                          bounds="two inserted lines (first fixed per partition), any positions"))
    for kind in range(9):
        obs.append(Ob(f"C14.one_datum_or_reject.kind{kind}", "CH", "harness.h_lines", "decode_line", 600, {"VF_KIND": kind, "VF_SYM": 0, "VF_MAXD": 2},
                      funcs=("*.ParsedData.from_chart_line",), bounds="a line yields one datum or RegexNotMatchError"))
    for rk in range(9):
        obs.append(Ob(f"C14.dispatcher_runs.k{rk // 3}{rk % 3}", "CH", "harness.h_track", "dispatcher_runs", 900, {"VF_RUNK": rk, "VF_RUNMAX": 8 if tier == "quick" else 12},
                      funcs=("chartparse.track.parse_data_from_chart_lines",),
                      bounds="a run of 0..8 (12) lines of one kind, optionally an unparsable line, 0..2 lines of a second kind, then a line accepted by any "
                             "subset of the three kinds: first accepting kind in the caller's order wins, whatever came before"))
    obs.append(Ob("C14.dispatcher_long", "CH", "harness.h_track", "dispatcher_long", 900, funcs=("chartparse.track.parse_data_from_chart_lines",),
                  bounds="a section of 5..4097 lines (15 sizes around powers of two) of one kind followed by 1-3 lines accepted by any subset of the three kinds: "
                         "first accepting kind of the caller's order wins however long the section (native execution, solver-chosen case)"))
    return obs


LEVEL_TEXT = ("CrossHair exhausts the real dispatcher over every acceptance pattern of 4 lines x 3 kinds and the three real track parsers "
              "with unparsable lines inserted at symbolic positions; z3 decides pairwise disjointness of the sync and instrument recognisers "
              "for all strings.")
LEVEL_NOTE = "Trusted: S1, S3-S6, S7', re semantics."
TECHNIQUE = CH_TECH + "; z3 regular-language emptiness of pairwise intersections"
ENGINE = "CH+RX"
EXPLANATION = "see obligation_table"
BOUNDS = "4 lines x 3 kinds; runs of <=8/12 lines symbolic and 5..4097 lines native; insertion at 5 positions of a 4-line section; all strings for disjointness"
OUTSIDE = "sections longer than the bound (the dispatcher handles lines independently in a loop)"
ASSUMPTIONS = [S1, S3, S4, S6]
