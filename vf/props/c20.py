"""C20 - every module is importable first; import order does not matter."""
from vf.runner import Ob
from .common import *  # noqa: F401,F403

LEVEL = "model_checking"


def obligations(tier):
    return [Ob("C20.import_order", "PY", "vf.im", "check", 900,
               funcs=tuple("chartparse/%s.py (import-time program)" % m for m in
                           ("chart", "event", "exceptions", "globalevents", "hints", "instrument", "metadata", "sync", "tick", "time", "track", "util")),
               bounds="every dependency-closed set of already-loaded modules x every next module (inductive step => all import orders of any length); unrolled to the derived step bound"),
            Ob("C20.bound_objects", "PY", "vf.im_state", "check", 900,
               funcs=("chartparse/*.py (module bodies executed in fresh interpreters)",),
               bounds="concrete complement (exhaustive over the property's own quantifier): every module imported first and every ordered pair imported first and second (dotted spelling), every module first and 33 pairs in the `from chartparse import m` spelling, every module first under -O and -OO, "
                      "then the rest; a structural fingerprint (depth 3: classes with their attributes, bases and MRO, containers in order, loggers with their class, "
                      "process-wide logging settings) of every module-level name must equal the chart-first order's")]


LEVEL_TEXT = ("The import-time programs of the 12 modules are extracted from the live ASTs and executed symbolically by z3 as an explicit-stack "
              "transition system (CPython's import protocol) from an arbitrary dependency-closed loaded-set with a symbolic next module: "
              "unsat means no first-import and no import order can fail; sat yields (L, M), replayed in a fresh interpreter.")
LEVEL_NOTE = ("Hand-written import-protocol semantics (trusted, validated on every run against 12 fresh-interpreter first-imports). Each body "
              "runs exactly once per interpreter, so the same names are bound to the same objects in every order. Outside: imports inside "
              "functions at call time, importlib.reload, clients catching ImportError.")
TECHNIQUE = "bounded model check (z3 bit-vectors) of the import-time programs extracted from the live ASTs, inductive step over loaded-sets; complemented by an exhaustive fresh-interpreter comparison of the bound objects over first-imports and ordered pairs"
ENGINE = "IM"
EXPLANATION = "see obligation_table"
BOUNDS = "12 modules; unrolling bound = import events + 3*modules + 2 (derived from the programs)"
OUTSIDE = "call-time imports inside functions; reload; clients that catch the error and continue"
ASSUMPTIONS = ["CPython import protocol as modelled in vf/im.py"]
