"""C17 - parsing is a pure function of the text, free of history (history fragment only; threads outside)."""
from vf.runner import Ob
from .common import _sync_section, _two_maps, _e2e  # noqa: F401
from .common import *  # noqa: F401,F403

LEVEL = "model_checking"


def obligations(tier):
    obs = [Ob("C17.history.len1", "CH", "harness.h_hist", "history_free", 900, {"VF_HIST": 1, "VF_HLEN": 1},
              funcs=("chartparse.chart.Chart.from_file (whole pipeline, native execution)",),
              bounds="every history of one earlier parse over a 11-text corpus (well-formed, other tempo map, other resolution, garbage/unknown sections, two ill-formed charts that fail to parse, a selection), then every text: identical to its parse as the first parse of a fresh interpreter"),
           Ob("C17.dispatcher_history", "CH", "harness.h_track", "dispatcher_history", 600, funcs=("chartparse.track.parse_data_from_chart_lines",),
              bounds="two consecutive dispatches over the same line texts with independent symbolic acceptance patterns"),
           Ob("C17.lookup_twice", "CH", "harness.h_sync", "hint_invisible", 300, {"VF_K": 3}, funcs=("chartparse.sync.BPMEvents.timestamp_at_tick",),
              bounds="the same query twice on one tempo map gives the same answer (symbolic ticks)")]
    obs.append(Ob("C17.metadata_twice", "CH", "harness.h_extra", "metadata_twice", 900, funcs=("chartparse.metadata.Metadata.from_chart_lines",),
                  bounds="two [Song] sections in a row, the first possibly failing half-way"))
    obs.append(Ob("C17.kernel_sequence", "CH", "harness.h_extra", "kernel_sequence", 300, funcs=("chartparse.tick.seconds_from_ticks_at_bpm",),
                  bounds="the real kernel twice in a row"))
    obs.append(Ob("C17.hash_seeds", "CH", "harness.h_hist", "hash_seed_free", 900, {"VF_HIST": 1},
                  funcs=("chartparse.chart.Chart.from_file (whole pipeline, native execution)",),
                  bounds="every corpus text parsed as the first parse of fresh interpreters started with 6 other string-hash seeds: identical observation, rendering and report order"))
    if tier == "thorough":
        obs.append(Ob("C17.history.len2", "CH", "harness.h_hist", "history_free", 1800, {"VF_HIST": 1, "VF_HLEN": 2},
                      funcs=("chartparse.chart.Chart.from_file",), bounds="every history of two earlier parses over the corpus (10^3 cases)"))
    obs.append(_two_maps("C17"))
    obs.append(Ob("C17.long_history", "CH", "harness.h_hist", "long_history", 1200,
                  funcs=("chartparse.chart.Chart.from_file (whole pipeline, native execution)",),
                  bounds="30/120/400 parses in one fresh interpreter alternating two of four texts that share every tick but differ in tempo map / resolution, "
                         "each chart dropped at once (freed objects, recycled addresses): every parse identical to the first parse of its text"))
    for p in range(1):
        obs.append(Ob(f"C17.route_twice.part{p}", "CH", "harness.h_chart", "route_twice", 900, {"VF_NSEC": 1, "VF_NPARTS": 16, "VF_PART": p},
                      funcs=("chartparse.chart.Chart.from_file",),
                      bounds="two parses in one process: a restricted parse (selection: the file's pair and/or an absent pair) of a file with one track section, then a parse of another "
                             "file with a different track section and any selection form: the second result is what it would be as a first parse (3 of 48 names per partition, 6 orders)"))
    return obs


LEVEL_TEXT = ("Only the *history* part of the statement is decided: CrossHair enumerates (the solver chooses) every history of earlier parses "
              "of bounded length over a small corpus that includes failing parses, and every following parse must be observably identical "
              "(full public observation and str()) to the parse of the same text as the very first parse of a fresh interpreter, which is "
              "computed in separate processes; plus symbolic two-call harnesses on the dispatcher and the tempo lookup.")
LEVEL_NOTE = ("NOT decided: concurrent parses on other threads (CrossHair has no thread model; interleavings are outside the claim), histories "
              "longer than 1 (quick) / 2 (thorough), texts outside the 11-text corpus. Every explored history runs in its own fresh interpreter "
              "(native execution; the solver only chooses the history), so explored paths cannot influence each other. Trusted: S1, S3, S4.")
TECHNIQUE = "CrossHair-enumerated bounded parse histories, long drop-and-reparse histories and other string-hash seeds compared with fresh-interpreter parses (native execution, the solver chooses the case); symbolic two-call / two-object harnesses"
EXPLANATION = "see obligation_table; threads are outside the claim"
BOUNDS = "histories of length <=1 (quick) / <=2 (thorough) over a 11-text corpus; 2 dispatches x 2 lines x 2 kinds"
OUTSIDE = "thread interleavings (no thread model; nothing claimed); histories beyond the listed shapes; other texts"
ASSUMPTIONS = [S1, S3, S4, "fresh-interpreter reference parses are computed by subprocesses of the same interpreter binary"]
