"""C15 - untrustworthy tempo data is rejected loudly, never turned into times."""
from vf.runner import Ob
from .common import _sync_section, _two_maps, _e2e  # noqa: F401
from .common import *  # noqa: F401,F403

LEVEL = "model_checking"
SY, TK = "chartparse.sync.", "chartparse.tick."


def obligations(tier):
    obs = []
    for nb in ([2, 3] if tier == "quick" else [1, 2, 3, 4]):
        obs.append(Ob(f"C15.bpm_builder.N{nb}", "CH", "harness.h_sync", "bpm_builder_validation", 900, {"VF_NB": nb},
                      funcs=(SY + "BPMEvent.from_parsed_data", SY + "BPMEvents.__post_init__", "chartparse.track.build_events_from_data", TK + "seconds_from_ticks_at_bpm (guards)"),
                      bounds=f"<={nb} tempo data, ticks in any order with duplicates, any resolution sign, zero tempos"))
    obs += [
        Ob("C15.sync_track_validation", "CH", "harness.h_sync", "sync_track_validation", 120, funcs=(SY + "SyncTrack.__post_init__",)),
        Ob("C15.zero_tempo_queries", "CH", "harness.h_sync", "zero_tempo_queries", 300, funcs=(SY + "BPMEvents.timestamp_at_tick", TK + "seconds_from_ticks_at_bpm (guards)"),
           bounds="queries governed by a zero tempo and negative ticks raise ValueError"),
        Ob("C15.kernel_guards", "CH", "harness.h_sync", "kernel_guards", 60, funcs=(TK + "seconds_from_ticks_at_bpm (guard prefix)",)),
        Ob("C15.rx.unsigned", "PY", "vf.rx_props", "c08", 300, funcs=(SY + "*.ParsedData._regex",), bounds="B/TS/A recognisers accept only unsigned digit strings (L<=UP)"),
    ]
    if tier == "thorough":
        for k0 in range(12):
            obs.append(Ob(f"C15.real_lines.N3.first{k0}", "CH", "harness.h_extra", "sync_real_lines", 1500, {"VF_NSYNC": 3, "VF_K0": k0},
                          funcs=(SY + "SyncTrack.from_chart_lines",), bounds="every sequence of 3 lines, first fixed per partition"))
    if tier == "quick":
        obs.append(Ob("C15.real_lines.N3.firstTS", "CH", "harness.h_extra", "sync_real_lines", 1500, {"VF_NSYNC": 3, "VF_K0": 6},
                      funcs=(SY + "SyncTrack.from_chart_lines",), bounds="a tick-0 signature line followed by every pair of lines from the 12 shapes"))
    for ns in [2]:
        obs.append(Ob(f"C15.real_lines.N{ns}", "CH", "harness.h_extra", "sync_real_lines", 1500, {"VF_NSYNC": ns},
                      funcs=(SY + "SyncTrack.from_chart_lines", "chartparse.track.parse_data_from_chart_lines"),
                      bounds=f"real recognisers on every sequence of {ns} lines from 12 shapes (exact duplicates, zero tempos, shifted tick-0 lines, garbage), resolution in {{192, 0, -192}}"))
    for nb in ([0, 1] if tier == "quick" else [0, 1, 2, 3]):
        obs.append(Ob(f"C15.sync_from_lines.NB{nb}", "CH", "harness.h_c18", "sync_corrupt", 1200, {"VF_NB": nb},
                      funcs=(SY + "SyncTrack.from_chart_lines",), bounds=f"{nb} tempo token lines: returns only when trustworthy, else ValueError"))
    obs += _sync_section("C15", ["0,4,1", "4,0,1", "0,1,4"] if tier == "quick" else ["0,4,1", "4,0,1", "0,1,4", "0,4,4", "4,4", "0,4"])
    for kz in ([5] if tier == "quick" else [3, 5, 7]):
        obs.append(Ob(f"C15.zero_tempo_long.K{kz}", "CH", "harness.h_sync2", "zero_tempo_long", 900, {"VF_KZ": kz},
                      funcs=(SY + "BPMEvents.timestamp_at_tick", SY + "BPMEvents._index_of_proximal_event", TK + "seconds_from_ticks_at_bpm (guards)"),
                      bounds=f"{kz} tempo events with symbolic ticks, one zero tempo at any position, every hint and tick: ValueError exactly when the zero tempo governs, the tick is negative or the hint is too late"))
    obs.append(Ob("C15.framing", "CH", "harness.h_chart", "framing", 300, funcs=("chartparse.chart.Chart._partition_lines_by_data_section",),
                  bounds="3 sections x <=2 symbolic body lines of any length (blank lines included): this section's parser receives exactly its own body lines"))
    obs.append(_two_maps("C15"))
    obs.append(Ob("C15.negative_tick_forms", "CH", "harness.h_sync2", "negative_tick_forms", 300, funcs=(SY + "BPMEvents.timestamp_at_tick", SY + "BPMEvents.timestamp_at_tick_no_optimize_return"),
                  bounds="negative positions in 10 numeric forms (ints, floats just below zero, fractions, -inf, -2^70), every hint, both query entry points: rejected (ValueError / TypeError), never timed"))
    return obs


LEVEL_TEXT = ("CrossHair executes the real builders and validators on arbitrary (unsorted, duplicated, zero-tempo, any-resolution) tempo data "
              "with solver integers: the builder returns only for R>0, first tick 0, strictly increasing ticks; queries governed by tempo 0 "
              "or for negative ticks raise ValueError.")
LEVEL_NOTE = "Trusted: S1, S3, S4 (live guard prefix executed), S7'."
TECHNIQUE = CH_TECH
EXPLANATION = "see obligation_table"
BOUNDS = "<=3 (quick) / <=4 (thorough) tempo data in the builders; 5 (3-7) tempo events with a zero tempo at any position in the lookup; whole sync sections with 3 tempo lines; ints unbounded"
OUTSIDE = "more tempo data than the bound"
ASSUMPTIONS = [S1, S3, S4]
