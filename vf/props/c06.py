"""C06 - sections are framed and routed to the right parser and track key."""
from vf.runner import Ob
from .common import *  # noqa: F401,F403

LEVEL = "model_checking"
CH_ = "chartparse.chart."


def obligations(tier):
    obs = [Ob("C06.framing", "CH", "harness.h_chart", "framing", 300, funcs=(CH_ + "Chart._partition_lines_by_data_section",),
              bounds="3 sections x <=2 symbolic body lines of any length (not '{' or '}')"),
           Ob("C06.header.rx", "PY", "vf.rx_props", "c06_header", 120, funcs=(CH_ + "Chart._header_tag_regex",), bounds="all strings"),
           Ob("C06.structure", "PY", "vf.structure", "c06", 60, funcs=(CH_ + "Chart.from_file", CH_ + "Chart.from_filepath"), bounds="AST facts: splitlines(), utf-8-sig")]
    np_ = 16
    for p in range(np_):
        obs.append(Ob(f"C06.route.1sec.part{p}", "CH", "harness.h_chart", "route", 600, {"VF_NSEC": 1, "VF_NPARTS": np_, "VF_PART": p},
                      funcs=(CH_ + "Chart.from_file", CH_ + "Chart._partition_lines_by_data_section"),
                      bounds="3 of the 48 section names (40 tracks + 8 unknown), 6 section orders, LF/CRLF, missing required sections, recording parsers"))
    if tier == "thorough":
        for p in range(48):
            obs.append(Ob(f"C06.route.2sec.part{p}", "CH", "harness.h_chart", "route", 1500, {"VF_NSEC": 2, "VF_NPARTS": 48, "VF_PART": p},
                          funcs=(CH_ + "Chart.from_file",), bounds="two extra sections: 1 of 48 names x 3 second names, 6 orders"))
        obs.append(Ob("C06.route.allperms", "CH", "harness.h_chart", "route", 1500, {"VF_NSEC": 1, "VF_NPARTS": 48, "VF_PART": 0, "VF_ALLPERMS": 1},
                      funcs=(CH_ + "Chart.from_file",), bounds="all 24 orders of 4 sections for one track name"))
    for nm in ([3] if tier == "quick" else [3, 4]):
        obs.append(Ob(f"C06.route_multi.{nm}", "CH", "harness.h_chart", "route_multi", 1500, {"VF_NMULTI": nm}, funcs=(CH_ + "Chart.from_file",),
                      bounds=f"{nm} instrument sections (two instruments, several difficulties) in every relative order and 4 placements of the required sections"))
    for p in range(8):
        obs.append(Ob(f"C06.by_path.part{p}", "CH", "harness.h_chart", "route_by_path", 600, {"VF_NSEC": 1, "VF_NPARTS": 8, "VF_PART": p},
                      funcs=(CH_ + "Chart.from_filepath", CH_ + "Chart.from_file"),
                      bounds="Chart.from_filepath on a modelled file (optional UTF-8 BOM, LF/CRLF; documented open()/codec contract), the library's logger at WARNING or at DEBUG: same routing "
                             "result as without the mark, 6 of the 48 section names x 6 orders x selection; replays use a real file"))
    obs.append(Ob("C06.real_parsers", "CH", "harness.h_chart", "route_real", 600, funcs=(CH_ + "Chart.from_file", "chartparse.instrument.InstrumentTrack.from_chart_lines"),
                  bounds="real section parsers on a concrete chart, symbolic header choice / order / newline style"))
    obs.append(Ob("C06.crlf_file_scale", "CH", "harness.h_chart", "crlf_file_scale", 1500, funcs=("chartparse.chart.Chart.from_file", "chartparse.chart.Chart._partition_lines_by_data_section"),
                  bounds="a 130 000-character chart (all 40 tracks) in which the CR of a closing brace / opening brace / header / body line is character number 2^k or 2*2^k "
                         "(k in 10,12..17), and an LF rendering whose LF is that character, solver-chosen case, native execution: the CRLF parse equals the LF parse, nothing lost"))
    return obs


LEVEL_TEXT = ("CrossHair drives the real framing on symbolic body lines and the real Chart.from_file with recording section parsers over a "
              "symbolic choice of section names, orders, newline styles and missing sections; the header regex is decided for all strings by z3.")
LEVEL_NOTE = ("BOM clause: decided on a *model* of the file (open()/Path.open()/Path.read_text() in text mode; codec utf-8-sig drops one leading mark, "
              "utf-8 keeps it as U+FEFF; universal newlines) - the codec itself is CPython's and trusted; candidates are replayed on a real file. "
              "Body line equal to '{'/'}' is a delimiter, not a body line. Trusted: S1, S5, S6, str.splitlines.")
TECHNIQUE = CH_TECH + "; z3 regex-language lemmas for the header pattern"
ENGINE = "CH+RX"
EXPLANATION = "see obligation_table"
BOUNDS = "<=3 framed sections with <=2 symbolic body lines; routing: 1 (quick) / 2 (thorough) extra sections from 48 names"
OUTSIDE = "the byte-level codec (modelled by its documented contract); duplicate section headers; more than 2 non-required sections at once"
ASSUMPTIONS = [S1, S5, S6]
