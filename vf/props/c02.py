"""C02 - one note event per tick; lanes are exactly the lanes written."""
from vf.runner import Ob
from .common import _sync_section, _two_maps, _e2e  # noqa: F401
from .common import *  # noqa: F401,F403

LEVEL = "model_checking"
IN, TR = "chartparse.instrument.", "chartparse.track."


def obligations(tier):
    obs = []
    for nd in ([3, 5] if tier == "quick" else [1, 2, 3, 4, 5, 6]):
        obs.append(Ob(f"C02.grouping_loop.M{nd}", "CH", "harness.h_instrument", "grouping_loop", 300, {"VF_ND": nd},
                      funcs=(IN + "InstrumentTrack._build_note_events_from_data",),
                      bounds=f"{nd} data with symbolic non-decreasing ticks; recorder from_parsed_data"))
    if tier == "quick":
        obs.append(Ob("C02.note_from_datas.M2", "CH", "harness.h_instrument", "note_from_datas", 300, {"VF_M": 2}, funcs=(IN + "Note.from_parsed_datas",)))
        obs.append(Ob("C02.note_from_datas.M3", "CH", "harness.h_instrument", "note_from_datas", 600, {"VF_M": 3}, funcs=(IN + "Note.from_parsed_datas",)))
    else:
        for m in (1, 2, 3):
            obs.append(Ob(f"C02.note_from_datas.M{m}", "CH", "harness.h_instrument", "note_from_datas", 600, {"VF_M": m}, funcs=(IN + "Note.from_parsed_datas",)))
        for f in range(8):
            obs.append(Ob(f"C02.note_from_datas.M4.first{f}", "CH", "harness.h_instrument", "note_from_datas", 900, {"VF_M": 4, "VF_FIRST": f},
                          funcs=(IN + "Note.from_parsed_datas",), bounds="4 data, first index fixed per partition"))
    obs.append(Ob("C02.grouping_loop.file_scale", "CH", "harness.h_instrument", "grouping_loop_large", 900, funcs=(IN + "InstrumentTrack._build_note_events_from_data",),
                  bounds="8200 note lines, one run of 2-3 equal ticks at a solver-chosen position among 13 sizes (1, 63/64, ... 4095/4096, 8191/8192); native execution, recorder from_parsed_data"))
    obs.append(Ob("C02.note_subsets", "CH", "harness.h_instrument", "note_subsets", 900, funcs=(IN + "Note.from_parsed_datas",),
                  bounds="all 32 lane subsets (up to 5 lane lines at a tick), rotated/reversed line order, tap/forced lines"))
    obs.append(Ob("C02.dispatcher", "CH", "harness.h_track", "dispatcher", 300, {"VF_NL": 4 if tier == "thorough" else 3},
                  funcs=(TR + "parse_data_from_chart_lines",), bounds="3-4 lines x 3 kinds, arbitrary acceptance pattern"))
    obs.append(Ob("C02.dispatch_wiring", "CH", "harness.h_track", "track_dispatch_wiring", 300, {"VF_TRACK": 0},
                  funcs=(IN + "InstrumentTrack._parse_data_from_chart_lines",)))
    obs.append(Ob("C02.rx.lines", "PY", "vf.rx_props", "c07", 300, funcs=(IN + "NoteEvent.ParsedData._regex", IN + "StarPowerEvent.ParsedData._regex", IN + "TrackEvent.ParsedData._regex"),
                  bounds="all strings over U+0000-U+2FFFF"))
    idxs = ["0,1", "4,7", "0,6,1", "2,2,5"] if tier == "quick" else \
        ["0,1", "4,7", "0,6,1", "2,2,5", "7,0", "3,4", "1,1", "6,0", "0,7,6", "0,1,2", "4,3,2", "7,7", "0,5,1,6", "1,2,3"]
    for k, ix in enumerate(idxs):
        obs.append(Ob(f"C02.integrated.note_section[{ix}]", "CH", "harness.h_integrated", "note_section", 1200, {"VF_IDX": ix, "VF_ORDER": k % 3},
                      funcs=(IN + "InstrumentTrack.from_chart_lines", IN + "NoteEvent.from_parsed_data", IN + "Note.from_parsed_datas",
                             TR + "parse_data_from_chart_lines", TR + "build_events_from_data"),
                      bounds="token lines with symbolic ticks/lengths, S/E/garbage lines interleaved, full reference oracle"))
    obs.append(Ob("C02.framing", "CH", "harness.h_chart", "framing", 300, funcs=("chartparse.chart.Chart._partition_lines_by_data_section",),
                  bounds="3 sections x <=2 symbolic body lines of any length (blank lines included): each section parser receives exactly its own body lines, so no note line is lost to a neighbouring section"))
    obs += _e2e("C02", [0])
    return obs


LEVEL_TEXT = ("Bounded symbolic execution of the real grouping loop, lane decoding, dispatcher and the whole "
              "InstrumentTrack.from_chart_lines on token lines with solver-integer ticks (so gaps of 0/1/any are all covered), "
              "plus unbounded regex-language lemmas for which lines are note lines.")
LEVEL_NOTE = "Bounded in lines per section (<=5 unit, <=4 integrated). Well-formed = ticks non-decreasing in file order. Trusted: S1-S7', RX translator."
TECHNIQUE = CH_TECH + "; z3 regex-language lemmas for line recognition"
ENGINE = "CH+RX"
EXPLANATION = "see obligation_table"
BOUNDS = "<=5/6 data in the loop harness, <=3/4 lines per tick, <=3/4 token lines integrated; ints unbounded"
OUTSIDE = "sections whose ticks decrease in file order; duplicate lane lines at one tick"
ASSUMPTIONS = [S1, S2, S3, S4, S5, S6, "S7': token lines abstract the recognisers (justified by the RX lemmas of C07)"]
