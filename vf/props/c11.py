"""C11 - lookup hints are invisible; timestamps are never silently misplaced."""
from vf.runner import Ob
from .common import _sync_section, _two_maps, _e2e  # noqa: F401
from .common import _ned

LEVEL = "model_checking"
SYNC = "chartparse.sync.BPMEvents."


def obligations(tier):
    ks = [2, 4] if tier == "quick" else [1, 2, 3, 4, 5, 6]
    obs = []
    for k in ks:
        env = {"VF_K": k}
        obs.append(Ob(f"C11.index.K{k}", "CH", "harness.h_sync", "index_of_proximal", 120, env,
                      funcs=(SYNC + "_index_of_proximal_event",),
                      bounds=f"K={k} tempo events, ticks/hint symbolic unbounded ints"))
        obs.append(Ob(f"C11.hint_invisible.K{k}", "CH", "harness.h_sync", "hint_invisible", 240, env,
                      funcs=(SYNC + "timestamp_at_tick", "chartparse.time.add", "chartparse.tick.between"),
                      bounds=f"K={k}; monotone-UF clock"))
        obs.append(Ob(f"C11.dataflow.K{k}", "CH", "harness.h_sync", "timestamp_at_tick_dataflow", 120, env,
                      funcs=(SYNC + "timestamp_at_tick",), bounds=f"K={k}; recorder clock"))
    for kb in ([18] if tier == "quick" else [18, 26, 34]):
        obs.append(Ob(f"C11.long_map.index.K{kb}", "CH", "harness.h_big", "index_big", 2400, {"VF_KB": kb},
                      funcs=(SYNC + "_index_of_proximal_event",), bounds=f"{kb} tempo events with symbolic ticks, every hint 0..{kb}"))
    for kind in ([2, 3] if tier == "quick" else [0, 1, 2, 3, 4, 5]):
        for m in ([2] if tier == "quick" else [2, 3]):
            obs.append(Ob(f"C11.chain_any_order.kind{kind}.M{m}", "CH", "harness.h_events", "chain_any_order", 900, {"VF_KIND": kind, "VF_M": m},
                          funcs=("chartparse.track.build_events_from_data", SYNC + "timestamp_at_tick"),
                          bounds=f"{m} events of one kind in ARBITRARY tick order over 3 real tempo events: ValueError or every stored time/index equals the un-hinted query"))
    obs.append(Ob("C11.note_chain", "CH", "harness.h_integrated", "note_section_any_order", 1200, {"VF_IDX": "0,1"},
                  funcs=("chartparse.instrument.InstrumentTrack.from_chart_lines",), bounds="2 note lines in arbitrary tick order: ValueError or correct times"))
    obs.append(Ob("C11.constructor_hints", "CH", "harness.h_events", "constructor_dataflow", 300, {"VF_KIND": 2}, funcs=("chartparse.instrument.TrackEvent.from_parsed_data",)))
    obs += _ned("C11.note_event_dataflow", tier, ("chartparse.instrument.NoteEvent.from_parsed_data",), quick=("0,1", "1,5"))
    obs += _sync_section("C11", ["0,2,1"]) + [_two_maps("C11")] + _e2e("C11", [0] if tier == "quick" else [0, 7], split=(7,))
    obs.append(Ob("C11.long_history", "CH", "harness.h_hist", "long_history", 1200,
                  funcs=("chartparse.chart.Chart.from_file (whole pipeline, native execution)",),
                  bounds="30/120/400 parses in one fresh interpreter alternating two of four texts that share every tick but differ in tempo map / resolution, "
                         "each chart dropped at once (freed objects, recycled addresses): every parse identical to the first parse of its text"))
    obs.append(Ob("C11.framing", "CH", "harness.h_chart", "framing", 300, funcs=("chartparse.chart.Chart._partition_lines_by_data_section",),
                  bounds="3 sections x <=2 symbolic body lines of any length (blank lines included): this section's parser receives exactly its own body lines"))
    obs.append(Ob("C11.lookup_file_scale", "CH", "harness.h_sync2", "lookup_file_scale", 600, funcs=("chartparse.sync.BPMEvents.timestamp_at_tick", "chartparse.sync.BPMEvents._index_of_proximal_event"),
                  bounds="tempo maps of 50..12000 events (beat-by-beat tempo-mapped songs): a late tick from hint 0, from a near hint, from the exact hint and un-hinted gives one answer; native execution, solver-chosen case"))
    obs.append(Ob("C11.interpreter_flags", "CH", "harness.h_hist", "hash_seed_free", 900, {"VF_HIST": 1},
                  funcs=("chartparse.chart.Chart.from_file (whole pipeline, native execution)",),
                  bounds="the corpus (unsorted sections that must be rejected included) parsed in fresh interpreters started with other hash seeds and with -O: same outcome as the reference interpreter"))
    return obs

LEVEL_TEXT = ("Bounded symbolic execution (CrossHair/z3) of the real lookup and constructor code: for every "
              "tempo map of up to K events with arbitrary integer ticks, every tick and every hint the "
              "solver either exhausts all paths ('Confirmed over all paths') or returns a counterexample "
              "that is replayed concretely. Right level because the quantifier is over unbounded integers "
              "and hint histories, which no finite test sample settles.")
LEVEL_NOTE = ("Trusted: CrossHair opcode models, z3, stubs S1 (format), S3 (abstract integer-microsecond time), "
              "S4 (kernel replaced by guarded tagged clock; arithmetic tail is C01/C12's FK obligation). "
              "Bounded in the number of tempo events and events per section only.")
TECHNIQUE = "CrossHair symbolic execution of BPMEvents lookup/constructors with z3; twin reachability; concrete replay"
EXPLANATION = "see obligation_table; every obligation is a CrossHair path-exhaustive run over symbolic ints"
BOUNDS = "K<=4 (quick) / K<=6 (thorough) tempo events symbolic, 18 in the long-map lookup, 50..12000 native; M<=2/3 events per section in arbitrary tick order; ints unbounded; 7 interpreter configurations"
OUTSIDE = "more tempo events than K; float arithmetic of the kernel (C01/C12 FK lemmas)"
ASSUMPTIONS = ["S1 formatting stub", "S3 abstract time: timedelta arithmetic is exact integer microseconds",
               "S4 kernel stub keeps the live guard prefix; arithmetic tail verified separately (FK)"]
TRUSTED = ["CPython 3.12", "CrossHair 0.0.110", "z3 5.1.0"]
