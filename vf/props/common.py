from vf.runner import Ob
"""Shared text for the property modules."""
TRUSTED = ["CPython 3.12.1 (re, int(), round, timedelta, str.splitlines, enum, dataclasses, functools)",
           "IEEE-754 hardware arithmetic", "CrossHair 0.0.110 opcode models", "z3 5.1.0", "cvc5 1.0.3",
           "stub contracts S1-S8 and environment contracts E1-E3 (DESIGN.md 2.1.3, 2.3)"]
S1 = "S1: format()/str() of symbolic or abstract values yields a placeholder (formatting never raises, no side effects)"
S2 = "S2: functools.lru_cache wrappers replaced by their __wrapped__ function (cache(f)(x) == f(x))"
S3 = "S3: timedelta arithmetic/comparison is exact integer-microsecond arithmetic (AbsTime)"
S4 = "S4: seconds_from_ticks_at_bpm replaced in CH harnesses by its live guard prefix + a tagged clock; the arithmetic tail is verified by FK (K1-K3)"
S5 = "S5: collaborators replaced by recorders only where the obligation is about what the caller passes and stores; each has its own unit harness"
S6 = "S6: module loggers replaced by counting recorders"
E1 = "E1: timedelta(seconds=x), 0<=x<10^6+1, is an integer number of us within 1/2+2^-30 of 10^6*x, monotone in x, 0 at 0"
E2 = "E2: round(x, 3) is the binary64 nearest to the half-even 3-decimal rounding of exact x"
E3 = "E3: IEEE-754 binary64 round-to-nearest-even for + - * / and exact int->float conversion below 2^53"
CH_TECH = "CrossHair symbolic execution of the real functions (z3), path-exhaustive within stated bounds, reachability twins, concrete replay"


def _ned(prefix, tier, funcs, quick=("0,1", "6,1", "1,5", "7,6"), thorough=("0,1", "6,1", "1,5", "7,6", "2,6", "5,3", "7,5", "3,4", "2,0")):
    """The NoteEvent.from_parsed_data harness, one partition per pair of concrete line indices."""
    return [Ob(f"{prefix}[{ix}]", "CH", "harness.h_instrument", "note_event_dataflow", 900, {"VF_IDX2": ix}, funcs=funcs,
               bounds="two lines with these indices at one tick; symbolic lengths, tick, gap, resolution, tempo boundary, hint, one phrase; "
                      "times, lanes, sustain, HOPO rule, star power and returned cursors against the property's definitions")
            for ix in (quick if tier == "quick" else thorough)]


# ---- round-4 shared obligations ------------------------------------------------------------------
def _sync_section(prefix, triples, timeout=900):
    """SyncTrack.from_chart_lines on token lines; one partition per triple of tempo tokens
    (vf harness.h_sync2.RAWS: 0/2 = "120000", 1 = "60500", 3 = "1", 4 = "0")."""
    return [Ob(f"{prefix}.sync_section[{tr}]", "CH", "harness.h_sync2", "sync_section", timeout, {"VF_RAWS": tr},
               funcs=("chartparse.sync.SyncTrack.from_chart_lines", "chartparse.sync.BPMEvent.from_parsed_data",
                      "chartparse.sync.TimeSignatureEvent.from_parsed_data", "chartparse.sync.AnchorEvent.from_parsed_data",
                      "chartparse.track.parse_data_from_chart_lines", "chartparse.track.build_events_from_data"),
               bounds="whole [SyncTrack] on token lines: tempo lines with these tokens (equal neighbours / zero tempos included) at symbolic ticks, "
                      "symbolic resolution, a second signature at a symbolic tick with exponent from {none,0,1,2,3,5,9,16}, an anchor with a symbolic "
                      "value on or off a tempo tick: every line yields its own event with the written values, times = the stand-in clock's exact "
                      "tempo-map time = the un-hinted query, anchors move nothing, rejected (ValueError) exactly when a zero tempo governs something")
            for tr in triples]


def _two_maps(prefix):
    return Ob(f"{prefix}.two_maps", "CH", "harness.h_sync2", "two_maps", 300,
              funcs=("chartparse.sync.BPMEvents.timestamp_at_tick", "chartparse.sync.BPMEvents.timestamp_at_tick_no_optimize_return"),
              bounds="the same symbolic tick asked of two tempo maps with different change points, tempos and resolutions in one process "
                     "(second map possibly built after the first was freed), repeated questions: each map answers from its own data")


def _e2e(prefix, variants, timeout=2400, split=()):
    names = {0: "base", 1: "song-fields", 3: "song-fields+signature+anchors", 7: "song-fields+signature+anchors+player2"}
    out = []
    for v in variants:
        for sl in ((0, 1) if v in split else (-1,)):
            out.append(Ob(f"{prefix}.chart_e2e.{names.get(v, v)}" + ("" if sl < 0 else (".song-first", ".song-last")[sl]), "CH", "harness.h_e2e", "chart_e2e", timeout,
                          {"VF_E2E": v, "VF_E2E_SL": sl},
                          funcs=("chartparse.chart.Chart.from_file", "chartparse.chart.Chart._partition_lines_by_data_section",
                                 "chartparse.metadata.Metadata.from_chart_lines", "chartparse.sync.SyncTrack.from_chart_lines",
                                 "chartparse.globalevents.GlobalEventsTrack.from_chart_lines", "chartparse.instrument.InstrumentTrack.from_chart_lines"),
                          bounds="the whole real Chart.from_file on token lines (5 sections, 2 tracks, 2 tempo events, 2 notes, phrase, track/global events) with "
                                 "symbolic resolution, [Song] numbers, ticks, lengths and anchor values; every stored value and time against the statement "
                                 "(times: the stand-in clock's exact tempo-map time; HOPO rule with the [Song] resolution); [Song] first or last"))
    return out
