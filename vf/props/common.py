from vf.runner import Ob
"""Shared text for the property modules."""
TRUSTED = ["CPython 3.12.1 (re, int(), round, timedelta, str.splitlines, enum, dataclasses, functools)",
           "IEEE-754 hardware arithmetic", "CrossHair 0.0.110 opcode models", "z3 5.1.0", "cvc5 1.0.3",
           "stub contracts S1-S8 and environment contracts E1-E3 (DESIGN.md 2.1.3, 2.3)"]
S1 = "S1: format()/str() of symbolic or abstract values yields a placeholder (formatting never raises, no side effects)"
S2 = "S2: functools.lru_cache wrappers replaced by their __wrapped__ function (cache(f)(x) == f(x))"
S3 = "S3: timedelta arithmetic/comparison is exact integer-microsecond arithmetic (AbsTime)"
S4 = "S4: seconds_from_ticks_at_bpm replaced in CH harnesses by its live guard prefix + a tagged clock; the arithmetic tail is verified by FK (K1-K3)"
S5 = "S5: collaborators replaced by recorders only where the obligation is about what the caller passes and stores; each has its own unit harness"
S6 = "S6: module loggers replaced by counting recorders"
E1 = "E1: timedelta(seconds=x), 0<=x<10^6+1, is an integer number of us within 1/2+2^-30 of 10^6*x, monotone in x, 0 at 0"
E2 = "E2: round(x, 3) is the binary64 nearest to the half-even 3-decimal rounding of exact x"
E3 = "E3: IEEE-754 binary64 round-to-nearest-even for + - * / and exact int->float conversion below 2^53"
CH_TECH = "CrossHair symbolic execution of the real functions (z3), path-exhaustive within stated bounds, reachability twins, concrete replay"


def _ned(prefix, tier, funcs, quick=("0,1", "6,1", "1,5", "7,6"), thorough=("0,1", "6,1", "1,5", "7,6", "2,6", "5,3", "7,5", "3,4", "2,0")):
    """The NoteEvent.from_parsed_data harness, one partition per pair of concrete line indices."""
    return [Ob(f"{prefix}[{ix}]", "CH", "harness.h_instrument", "note_event_dataflow", 900, {"VF_IDX2": ix}, funcs=funcs,
               bounds="two lines with these indices at one tick; symbolic lengths, tick, gap, resolution, tempo boundary, hint, one phrase; "
                      "times, lanes, sustain, HOPO rule, star power and returned cursors against the property's definitions")
            for ix in (quick if tier == "quick" else thorough)]
