"""C18 - only documented errors escape; parsed charts always render."""
from vf.runner import Ob
from .common import _sync_section, _two_maps, _e2e  # noqa: F401
from .common import *  # noqa: F401,F403

LEVEL = "model_checking"


def obligations(tier):
    obs = []
    if tier == "quick":
        obs.append(Ob("C18.framing.3lines", "CH", "harness.h_lines", "framing_errors", 600, {"VF_NLINES": 3}, funcs=("chartparse.chart.Chart._partition_lines_by_data_section",),
                      bounds="all sequences of 3 lines from 10 line shapes"))
        for k0 in (0, 2, 3, 7):
            obs.append(Ob(f"C18.framing.4lines.first{k0}", "CH", "harness.h_lines", "framing_errors", 900, {"VF_NLINES": 4, "VF_K0": k0},
                          funcs=("chartparse.chart.Chart._partition_lines_by_data_section",), bounds="all sequences of 4 lines with the first shape fixed"))
    else:
        for k0 in range(10):
            obs.append(Ob(f"C18.framing.5lines.first{k0}", "CH", "harness.h_lines", "framing_errors", 3000, {"VF_NLINES": 5, "VF_K0": k0},
                          funcs=("chartparse.chart.Chart._partition_lines_by_data_section",), bounds="all sequences of 5 lines with the first shape fixed"))
    idxs = ["0,5", "7", "5", "0,0", "0,7", "4,4"] if tier == "quick" else ["0,5", "7", "5", "0,0", "6,7", "7,0", "5,6", "1,5", "4,4"]
    for ix in idxs:
        obs.append(Ob(f"C18.instrument_any[{ix}]", "CH", "harness.h_c18", "instrument_any", 1500, {"VF_IDX": ix, "VF_NSP": 1 if tier == "quick" else 2},
                      funcs=("chartparse.instrument.InstrumentTrack.from_chart_lines",), bounds="arbitrary tick order / duplicates / flag-only / forced-first; ints in [0,1e8)"))
    for nb in ([0, 1] if tier == "quick" else [0, 1, 2]):
        obs.append(Ob(f"C18.sync_any.NB{nb}", "CH", "harness.h_c18", "sync_any", 1500, {"VF_NB": nb}, funcs=("chartparse.sync.SyncTrack.from_chart_lines",),
                      bounds="arbitrary tempo lines incl. zero tempo / zero resolution; TS exponent in {0,2,63}"))
    if tier == "thorough":
        for los in ("1,3,4,5,6,7", "8,16,31,32,33,62"):
            obs.append(Ob(f"C18.sync_any.exponents[{los}]", "CH", "harness.h_c18", "sync_any", 1500, {"VF_NB": 1, "VF_LOS": los}, funcs=("chartparse.sync.SyncTrack.from_chart_lines",)))
    obs.append(Ob("C18.global_any", "CH", "harness.h_c18", "global_any", 1500, funcs=("chartparse.globalevents.GlobalEventsTrack.from_chart_lines",), bounds="3 lines, arbitrary kinds and tick order"))
    obs.append(Ob("C18.metadata", "CH", "harness.h_metadata", "metadata_fields", 900, {"VF_FIRST": 2, "VF_NLINES": 2}, funcs=("chartparse.metadata.Metadata.from_chart_lines",),
                  bounds="only MissingRequiredField escapes (Player2 values from the recogniser's SPEC)"))
    obs.append(Ob("C18.render.note", "CH", "harness.h_c18", "render_note_event", 1500, funcs=("chartparse.instrument.NoteEvent.__str__", "chartparse.event.Event.__str__", "chartparse.util.DictReprMixin.__repr__"),
                  bounds="32 notes x 4 sustain shapes x 3 states x star power, symbolic times"))
    obs.append(Ob("C18.player2", "CH", "harness.h_extra", "player2_any", 300, funcs=("chartparse.metadata._field_parsing_specs['player2']",),
                  bounds="any Player2 value raises only documented errors"))
    obs.append(Ob("C18.many_unparsable", "CH", "harness.h_extra", "many_unparsable", 900, funcs=("chartparse.track.parse_data_from_chart_lines", "chartparse.exceptions.RegexNotMatchError"),
                  bounds="blocks of 1..1000 unparsable lines of 8 shapes (braces included) at any position: no exception"))
    obs.append(Ob("C18.render.times", "CH", "harness.h_extra", "render_event_times", 300, funcs=("chartparse.event.Event.__str__",),
                  bounds="events at 11 representative instants up to the platform timedelta maximum"))
    obs.append(Ob("C18.render.chart", "CH", "harness.h_c18", "render_chart", 900, funcs=("chartparse.chart.Chart.__str__", "chartparse.util.DictReprTruncatedSequencesMixin.__repr__",
                                                                                            "chartparse.instrument.InstrumentTrack.__str__"),
                  bounds="charts with 0/1/2/4 tracks (tracks without notes included) and 0/1/2+ events per list (truncated-sequence repr branches), every event class"))
    obs.append(Ob("C18.sync_real_lines.N2", "CH", "harness.h_extra", "sync_real_lines", 1500, {"VF_NSYNC": 2},
                  funcs=("chartparse.sync.SyncTrack.from_chart_lines", "chartparse.sync.BPMEvents.timestamp_at_tick", "chartparse.tick.seconds_from_ticks_at_bpm (real arithmetic)"),
                  bounds="real recognisers and real float arithmetic on every sequence of 2 lines from 12 shapes (zero tempos first / last / only, duplicates, garbage), resolution in {192, 0, -192}: only ValueError"))
    obs.append(Ob("C18.sync_real_lines.N3.firstTS", "CH", "harness.h_extra", "sync_real_lines", 1500, {"VF_NSYNC": 3, "VF_K0": 6},
                  funcs=("chartparse.sync.SyncTrack.from_chart_lines",), bounds="a tick-0 signature line followed by every pair of lines from the 12 shapes"))
    obs.append(Ob("C18.route.missing", "CH", "harness.h_chart", "route", 900, {"VF_NSEC": 1, "VF_NPARTS": 48, "VF_PART": 47},
                  funcs=("chartparse.chart.Chart.from_file",), bounds="missing required sections -> ValueError only"))
    for kind in range(9):
        obs.append(Ob(f"C18.from_chart_line.kind{kind}", "CH", "harness.h_lines", "decode_line", 600, {"VF_KIND": kind, "VF_SYM": 0, "VF_MAXD": 2},
                      funcs=("*.ParsedData.from_chart_line",), bounds="after a successful match no exception; failed match RegexNotMatchError"))
    obs.append(Ob("C18.rx.header", "PY", "vf.rx_props", "c06_header", 120, funcs=("chartparse.chart.Chart._header_tag_regex",)))
    obs.append(Ob("C18.e_word_forms", "CH", "harness.h_lines", "e_word_forms", 300, funcs=("chartparse.instrument.TrackEvent.ParsedData.from_chart_line", "chartparse.instrument.InstrumentTrack.from_chart_lines"),
                  bounds="real recogniser and track parser on '<tick> = E <word>' with 14 unusual words (empty, quotes only, digits only, brackets, '=', ideographic space), with and without padding: decoded verbatim, rendered, no exception"))
    return obs


LEVEL_TEXT = ("CrossHair reports any exception escaping a harness, so each harness is an exception-escape analysis of the real code over "
              "symbolic inputs: framing over all short sequences of line shapes, the three track parsers and metadata over arbitrary "
              "(ill-formed) token lines with integers in [0,1e8), from_chart_line after a match, and str()/repr() of every event/track/chart shape.")
LEVEL_NOTE = ("Unit-wise: from_file adds no handler, so the escape set of the whole is the union (argued, not solved). Numeric tokens <1e8 and "
              "TS exponents <64 as in the property. Trusted: S1 (format stubs), S3, S4, S7'.")
TECHNIQUE = CH_TECH + " used as exception-escape analysis"
EXPLANATION = "see obligation_table"
BOUNDS = "<=4/5 framing lines from 10 shapes; <=3 data per builder; ints in [0,1e8); exponents <64; real-line sync sections of 2-3 lines from 12 shapes; charts with 0-4 tracks rendered"
OUTSIDE = "timedelta overflow beyond the 8-digit bound; texts longer than the unit bounds (units compose without handlers)"
ASSUMPTIONS = [S1, S3, S4, S5]
