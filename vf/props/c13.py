"""C13 - track selection restricts the parse and tracks do not interfere."""
from vf.runner import Ob
from .common import _sync_section, _two_maps, _e2e  # noqa: F401
from .common import *  # noqa: F401,F403

LEVEL = "model_checking"
CH_ = "chartparse.chart."


def obligations(tier):
    obs = []
    if tier == "quick":
        for p in range(8):
            obs.append(Ob(f"C13.select.1sec.part{p}", "CH", "harness.h_chart", "route", 900, {"VF_NSEC": 1, "VF_NPARTS": 8, "VF_PART": p},
                          funcs=(CH_ + "Chart.from_file",), bounds="6 of 48 names per partition; selection classes None / [] / member / absent pair"))
        for p in (0, 7, 21, 40):
            obs.append(Ob(f"C13.select.2sec.name{p}", "CH", "harness.h_chart", "route", 900, {"VF_NSEC": 2, "VF_NPARTS": 48, "VF_PART": p},
                          funcs=(CH_ + "Chart.from_file",), bounds="two sections, 2^3+1 selection classes"))
    else:
        for p in range(48):
            obs.append(Ob(f"C13.select.2sec.name{p}", "CH", "harness.h_chart", "route", 1500, {"VF_NSEC": 2, "VF_NPARTS": 48, "VF_PART": p},
                          funcs=(CH_ + "Chart.from_file",), bounds="two sections, 2^3+1 selection classes, all 48 names"))
    for nm in ([3] if tier == "quick" else [3, 4]):
        obs.append(Ob(f"C13.route_multi.{nm}", "CH", "harness.h_chart", "route_multi", 1500, {"VF_NMULTI": nm}, funcs=(CH_ + "Chart.from_file",),
                      bounds=f"{nm} instrument sections, all 2^{nm}+1 selections, every relative order"))
    obs.append(Ob("C13.framing", "CH", "harness.h_chart", "framing", 300, funcs=(CH_ + "Chart._partition_lines_by_data_section",),
                  bounds="symbolic body lines of any content (header-like lines included) stay inside their own section"))
    obs.append(Ob("C13.real_parsers", "CH", "harness.h_chart", "select_real", 900, funcs=(CH_ + "Chart.from_file", "chartparse.instrument.InstrumentTrack.from_chart_lines"),
                  bounds="real parsers: selected parse equals the unrestricted parse restricted; an invalid unselected section is never parsed"))
    for p in range(4):
        obs.append(Ob(f"C13.route_twice.part{p}", "CH", "harness.h_chart", "route_twice", 900, {"VF_NSEC": 1, "VF_NPARTS": 16, "VF_PART": p},
                      funcs=("chartparse.chart.Chart.from_file",),
                      bounds="two parses in one process: a restricted parse (selection: the file's pair and/or an absent pair) of a file with one track section, then a parse of another "
                             "file with a different track section and any selection form: the second result is what it would be as a first parse (3 of 48 names per partition, 6 orders)"))
    return obs


LEVEL_TEXT = ("CrossHair executes the real Chart.from_file with recording section parsers: for symbolic section names, orders and selection "
              "classes the stored tracks are exactly the selected existing ones, built from their own lines, and the parser of an unselected "
              "section is never called (so its content cannot influence anything).")
LEVEL_NOTE = "Selections are generated from per-section membership bits plus None/[] (the routing code only asks membership of the section's own pair). Trusted: S1, S5, S6."
TECHNIQUE = CH_TECH
EXPLANATION = "see obligation_table"
BOUNDS = "<=2 instrument sections per file drawn from 40 track names + 8 unknown names (3-4 in route_multi, bodies different / identical / empty); two parses in a row"
OUTSIDE = "more than 2 instrument sections at once (sections are handled independently in a loop)"
ASSUMPTIONS = [S1, S5, S6]
