"""C05 - star-power membership of notes is exact and half-open."""
from vf.runner import Ob
from .common import *  # noqa: F401,F403
from .common import _ned

LEVEL = "model_checking"
F = "chartparse.instrument."


def obligations(tier):
    obs = []
    for p in ([1, 3] if tier == "quick" else [1, 2, 3, 4]):
        obs.append(Ob(f"C05.step.P{p}", "CH", "harness.h_instrument", "star_power_step", 300, {"VF_P": p},
                      funcs=(F + "NoteEvent._compute_star_power_data", F + "SpecialEvent.tick_is_during_event",
                             F + "SpecialEvent.tick_is_after_event", F + "SpecialEvent.end_tick"),
                      bounds=f"P={p} phrases sorted by start, arbitrary cursor satisfying the invariant, any number of notes by induction"))
    obs.append(Ob("C05.empty", "CH", "harness.h_instrument", "star_power_empty", 60, funcs=(F + "NoteEvent._compute_star_power_data",)))
    obs.append(Ob("C05.halfopen", "CH", "harness.h_instrument", "special_event_halfopen", 60,
                  funcs=(F + "SpecialEvent.tick_is_during_event", F + "SpecialEvent.tick_is_after_event")))
    obs.append(Ob("C05.cursor_threading.loop", "CH", "harness.h_instrument", "grouping_loop", 120, {"VF_ND": 4},
                  funcs=(F + "InstrumentTrack._build_note_events_from_data",), bounds="4 data, recorder from_parsed_data"))
    obs += _ned("C05.note_event", tier, (F + "NoteEvent.from_parsed_data",), quick=("0,1", "6,1", "7,6"))
    ng = [(2, 2)] if tier == "quick" else [(2, 2), (3, 2), (2, 3)]
    for (n, p) in ng:
        obs.append(Ob(f"C05.integrated.N{n}P{p}", "CH", "harness.h_integrated", "star_power_integrated", 600,
                      {"VF_N": n, "VF_P": p},
                      funcs=(F + "InstrumentTrack.from_chart_lines", F + "NoteEvent.from_parsed_data",
                             F + "NoteEvent._compute_star_power_data", "chartparse.track.build_events_from_data"),
                      bounds=f"{n} notes x {p} phrases, real cursor chain through from_chart_lines (token lines)"))
    obs.append(Ob("C05.framing", "CH", "harness.h_chart", "framing", 300, funcs=("chartparse.chart.Chart._partition_lines_by_data_section",),
                  bounds="3 sections x <=2 symbolic body lines of any length (blank lines included): this section's parser receives exactly its own body lines"))
    return obs


LEVEL_TEXT = ("Bounded symbolic execution of the real cursor code: one inductive step from an arbitrary cursor state "
              "satisfying the invariant (covers any number of notes), plus the cursor-threading dataflow and an "
              "integrated run of from_chart_lines; all tick/length values are unbounded solver integers, so the "
              "boundary ticks start-1/start/end-1/end and zero-length phrases are covered by the solver, not sampled.")
LEVEL_NOTE = "Bounded in phrases (<=3 quick, <=4 thorough). Trusted: CrossHair, z3, stubs S1,S3,S4,S5, RX lemmas for line recognition."
TECHNIQUE = CH_TECH + "; inductive one-step harness"
EXPLANATION = "inductive step + base + threading + integrated; see obligation_table"
BOUNDS = "<=3 (quick) / <=4 (thorough) phrases; ints unbounded; any number of notes by induction"
OUTSIDE = "phrase lists not ordered by start tick (not well-formed); more phrases than the bound in the integrated run"
ASSUMPTIONS = [S1, S3, S4, S5]
