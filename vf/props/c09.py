"""C09 - global events are classified lyric / section / text with verbatim values."""
from vf.runner import Ob
from .common import *  # noqa: F401,F403

LEVEL = "other"
GL, TR = "chartparse.globalevents.", "chartparse.track."


def obligations(tier):
    obs = [Ob("C09.rx", "PY", "vf.rx_props", "c09", 300, funcs=(GL + "LyricEvent.ParsedData._regex", GL + "SectionEvent.ParsedData._regex", GL + "TextEvent.ParsedData._regex",
                                                               GL + "GlobalEventsTrack._parse_data_from_chart_lines (kind order)"),
              bounds="all strings: ordered-dispatch classification and verbatim capture"),
           Ob("C09.dispatcher", "CH", "harness.h_track", "dispatcher", 300, {"VF_NL": 3 if tier == "quick" else 4}, funcs=(TR + "parse_data_from_chart_lines",)),
           Ob("C09.dispatch_wiring", "CH", "harness.h_track", "track_dispatch_wiring", 300, {"VF_TRACK": 2}, funcs=(GL + "GlobalEventsTrack._parse_data_from_chart_lines",),
              bounds="priority lyric > section > text; which returned list a kind lands in")]
    for kind in (3, 4, 5):
        obs.append(Ob(f"C09.constructor.{['TXT','SEC','LYR'][kind-3]}", "CH", "harness.h_events", "constructor_dataflow", 120, {"VF_KIND": kind}, funcs=(GL + "GlobalEvent.from_parsed_data",)))
    for kind, name in ((6, "LYR"), (7, "SEC"), (8, "TXT")):
        obs.append(Ob(f"C09.decode.{name}", "CH", "harness.h_lines", "decode_line", 600, {"VF_KIND": kind, "VF_SYM": 0, "VF_MAXD": 3}, funcs=(GL + "GlobalEvent.ParsedData.from_chart_line",)))
    if tier == "thorough":
        for k0 in range(12):
            obs.append(Ob(f"C09.real_lines.N3.first{k0}", "CH", "harness.h_extra", "global_real_lines", 1500, {"VF_NGE": 3, "VF_K0": k0},
                          funcs=(GL + "GlobalEventsTrack.from_chart_lines",), bounds="every sequence of 3 lines, first fixed per partition"))
    for nge in [2]:
        obs.append(Ob(f"C09.real_lines.N{nge}", "CH", "harness.h_extra", "global_real_lines", 1500, {"VF_NGE": nge},
                      funcs=(GL + "GlobalEventsTrack.from_chart_lines", TR + "parse_data_from_chart_lines"),
                      bounds=f"real recognisers on every sequence of {nge} lines from 12 shapes (exact duplicates, 'lyric'/'section' without blank, inner quotes, non-ASCII, unclassifiable lines)"))
    for ng in ([2, 3] if tier == "quick" else [1, 2, 3]):
        obs.append(Ob(f"C09.integrated.N{ng}", "CH", "harness.h_integrated", "global_section", 900, {"VF_NG": ng},
                      funcs=(GL + "GlobalEventsTrack.from_chart_lines", TR + "build_events_from_data"), bounds=f"{ng} token lines with symbolic kinds, ticks and string values"))
    for rk in range(9):
        obs.append(Ob(f"C09.dispatcher_runs.k{rk // 3}{rk % 3}", "CH", "harness.h_track", "dispatcher_runs", 900, {"VF_RUNK": rk, "VF_RUNMAX": 8 if tier == "quick" else 12},
                      funcs=("chartparse.track.parse_data_from_chart_lines",),
                      bounds="a run of 0..8 (12) lines of one kind, optionally an unparsable line, 0..2 lines of a second kind, then a line accepted by any "
                             "subset of the three kinds: first accepting kind in the caller's order wins, whatever came before"))
    obs.append(Ob("C09.framing", "CH", "harness.h_chart", "framing", 300, funcs=("chartparse.chart.Chart._partition_lines_by_data_section",),
                  bounds="3 sections x <=2 symbolic body lines of any length (blank lines included): this section's parser receives exactly its own body lines"))
    obs.append(Ob("C09.dispatcher_long", "CH", "harness.h_track", "dispatcher_long", 900, funcs=("chartparse.track.parse_data_from_chart_lines",),
                  bounds="a section of 5..4097 lines (15 sizes around powers of two) of one kind followed by 1-3 lines accepted by any subset of the three kinds: "
                         "first accepting kind of the caller's order wins however long the section (native execution, solver-chosen case)"))
    obs.append(Ob("C09.file_scale", "CH", "harness.h_chart", "crlf_file_scale", 1500, funcs=("chartparse.chart.Chart.from_file",),
                  bounds="a 130 000-character chart read whole: block boundaries (2^k characters) on line boundaries, LF and CRLF: every event line still lands in its list"))
    return obs


LEVEL_TEXT = ("Classification is an ordered dispatch over three regular languages: z3 decides for all strings that every lyric/section/text "
              "SPEC line is accepted by its kind and by no kind tried earlier (live order read with a spy), and that the captured value is "
              "the remainder verbatim; CrossHair covers the dispatcher, the wiring into the three lists and the event construction.")
LEVEL_NOTE = "Trusted: re semantics, translator (validated on solver witnesses), S1, S3-S6, S7'."
TECHNIQUE = "z3 regular-language lemmas over the live patterns in live dispatch order + CrossHair on dispatcher/builders"
ENGINE = "RX+CH"
EXPLANATION = ("SPEC_lyric = BL* D ' = E \"lyric ' ANY '\"' BL*, SPEC_section likewise, SPEC_text = quote-free text not starting with 'lyric ' / "
               "'section '. Queries: inclusion in own kind, exclusion from earlier kinds, capture lemmas, 'lyric'/'section' without blank are text.")
BOUNDS = "all strings (alphabet U+0000-U+2FFFF); <=3 token lines in the integrated harness; dispatcher runs of <=8/12 lines symbolic and 5..4097 lines native; a 130 000-character file"
OUTSIDE = "texts containing a newline character (lines cannot contain one)"
ASSUMPTIONS = [S1, S3, S4, S6]
