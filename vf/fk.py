"""FK engine: numeric leaf kernels of chartparse, translated from the *live* AST to SMT (DESIGN §2.3).

Straight-line numeric code only.  Two semantics:
  * bit-precise IEEE binary64 (SMT-LIB QF_BVFP text, decided by the cvc5 binary; z3 as a capped
    second opinion) for single-division kernels (tempo decode, eighth-triplet rounding);
  * axiomatised rounding over the reals (z3 QF_NRA): every float operation is exact*(1+d),
    |d| <= 2^-53 (sound over-approximation of round-to-nearest without overflow/underflow).
"""
from __future__ import annotations

import ast
import inspect
import os
import subprocess
import sys
import tempfile
import textwrap
import time

import z3

from . import REPO_DIR

if REPO_DIR not in sys.path:
    sys.path.insert(0, REPO_DIR)


class Unsupported(Exception):
    pass


# ------------------------------------------------------------------------------------------------
# IR: tuples ("op", args...) with a static type "int" | "float" | "str"
# ------------------------------------------------------------------------------------------------
IDENTITY_CALLS = {"Ticks", "Tick", "Seconds", "Timestamp", "float_identity"}


class Env:
    def __init__(self, vars_, consts=None, attr_consts=None):
        self.vars = dict(vars_)            # name -> IR
        self.consts = consts or {}
        self.attr_consts = attr_consts or {}   # "a.b" -> python number


def typ(ir):
    return ir[-1]


def tr_expr(node, env: Env):
    if isinstance(node, ast.Constant):
        v = node.value
        if isinstance(v, bool):
            raise Unsupported("bool constant")
        if isinstance(v, int):
            return ("const", v, "int")
        if isinstance(v, float):
            return ("const", v, "float")
        if isinstance(v, str):
            return ("strconst", v, "str")
        raise Unsupported("constant %r" % (v,))
    if isinstance(node, ast.Name):
        if node.id in env.vars:
            return env.vars[node.id]
        raise Unsupported("unknown name %s" % node.id)
    if isinstance(node, ast.Attribute):
        key = ast.unparse(node)
        if key in env.vars:
            return env.vars[key]
        if key in env.attr_consts:
            v = env.attr_consts[key]
            return ("const", v, "int" if isinstance(v, int) else "float")
        raise Unsupported("attribute %s" % key)
    if isinstance(node, ast.UnaryOp) and isinstance(node.op, ast.USub):
        a = tr_expr(node.operand, env)
        if a[0] == "const":
            return ("const", -a[1], typ(a))
        return ("neg", a, typ(a))
    if isinstance(node, ast.BinOp):
        a, b = tr_expr(node.left, env), tr_expr(node.right, env)
        ta, tb = typ(a), typ(b)
        if "str" in (ta, tb):
            raise Unsupported("string arithmetic")
        op = type(node.op).__name__
        if op == "Div":
            return ("div", a, b, "float")
        if op in ("Add", "Sub", "Mult"):
            t = "float" if "float" in (ta, tb) else "int"
            return ({"Add": "add", "Sub": "sub", "Mult": "mul"}[op], a, b, t)
        if op in ("FloorDiv", "Mod"):
            if ta == "int" and tb == "int":
                return ({"FloorDiv": "floordiv", "Mod": "mod"}[op], a, b, "int")
            raise Unsupported("float floor division")
        if op == "Pow" and a[0] == "const" and b[0] == "const":
            v = a[1] ** b[1]
            return ("const", v, "int" if isinstance(v, int) else "float")
        raise Unsupported("operator %s" % op)
    if isinstance(node, ast.Call):
        fn = ast.unparse(node.func)
        args = [tr_expr(a, env) for a in node.args]
        if node.keywords:
            raise Unsupported("keyword arguments in %s" % fn)
        short = fn.split(".")[-1]
        if short in IDENTITY_CALLS and len(args) == 1:
            return args[0]
        if fn == "round" and len(args) == 1:
            return ("round_int", args[0], "int") if typ(args[0]) == "float" else args[0]
        if fn == "round" and len(args) == 2 and args[1][0] == "const":
            return ("round_nd", args[0], args[1][1], "float")
        if fn == "int" and len(args) == 1:
            if typ(args[0]) == "str":
                return ("str2int", args[0], "int")
            if typ(args[0]) == "float":
                return ("trunc", args[0], "int")
            return args[0]
        if fn == "float" and len(args) == 1:
            if typ(args[0]) == "int":
                return ("i2f", args[0], "float")
            if typ(args[0]) == "float":
                return args[0]
        if fn == "abs" and len(args) == 1:
            return ("abs", args[0], typ(args[0]))
        if fn in ("math.floor",) and len(args) == 1 and typ(args[0]) == "float":
            return ("floor", args[0], "int")
        raise Unsupported("call %s" % fn)
    if isinstance(node, ast.Subscript):
        base = tr_expr(node.value, env)
        if typ(base) != "str" or not isinstance(node.slice, ast.Slice) or node.slice.step is not None:
            raise Unsupported("subscript")

        def bound(b):
            if b is None:
                return None
            e = tr_expr(b, env)
            if e[0] != "const" or typ(e) != "int":
                raise Unsupported("non-constant slice bound")
            return e[1]
        return ("slice", base, bound(node.slice.lower), bound(node.slice.upper), "str")
    if isinstance(node, ast.IfExp):
        c = tr_cond(node.test, env)
        return ("ite", c, tr_expr(node.body, env), tr_expr(node.orelse, env), typ(tr_expr(node.body, env)))
    raise Unsupported("expression %s" % type(node).__name__)


def tr_cond(node, env):
    if isinstance(node, ast.BoolOp):
        parts = [tr_cond(v, env) for v in node.values]
        out = parts[0]
        for p_ in parts[1:]:
            out = ("or" if isinstance(node.op, ast.Or) else "and", out, p_, "bool")
        return out
    if isinstance(node, ast.UnaryOp) and isinstance(node.op, ast.Not):
        return ("not", tr_cond(node.operand, env), "bool")
    if isinstance(node, ast.Compare) and len(node.ops) == 1:
        a, b = tr_expr(node.left, env), tr_expr(node.comparators[0], env)
        return ("cmp", type(node.ops[0]).__name__, a, b, "bool")
    raise Unsupported("condition %s" % ast.unparse(node))


def straight_line(stmts, env: Env):
    """Evaluate assignments; returns the IR of the `return` expression (or None)."""
    for st in stmts:
        if isinstance(st, ast.Assign):
            val = st.value
            if len(st.targets) != 1:
                raise Unsupported("multiple targets")
            tgt = st.targets[0]
            if isinstance(tgt, ast.Name):
                env.vars[tgt.id] = tr_expr(val, env)
            elif isinstance(tgt, ast.Tuple) and isinstance(val, ast.Tuple) and len(tgt.elts) == len(val.elts):
                vals = [tr_expr(v, env) for v in val.elts]
                for t, v in zip(tgt.elts, vals):
                    if not isinstance(t, ast.Name):
                        raise Unsupported("tuple target")
                    env.vars[t.id] = v
            else:
                raise Unsupported("assignment target")
        elif isinstance(st, ast.AnnAssign) and isinstance(st.target, ast.Name) and st.value is not None:
            env.vars[st.target.id] = tr_expr(st.value, env)
        elif isinstance(st, ast.Return):
            return tr_expr(st.value, env)
        elif isinstance(st, ast.Expr) and isinstance(st.value, ast.Constant):
            continue
        else:
            raise Unsupported("statement %s" % type(st).__name__)
    return None


def fn_body(fn):
    src = textwrap.dedent(inspect.getsource(fn))
    fdef = ast.parse(src).body[0]
    body = list(fdef.body)
    if body and isinstance(body[0], ast.Expr) and isinstance(getattr(body[0], "value", None), ast.Constant):
        body = body[1:]
    return fdef, body


def split_guards(body):
    guards = []
    body = list(body)
    while body and isinstance(body[0], ast.If) and len(body[0].body) == 1 and \
            isinstance(body[0].body[0], ast.Raise) and not body[0].orelse:
        guards.append(body.pop(0))
    return guards, body


# ------------------------------------------------------------------------------------------------
# decimal-string abstraction (BPM decode): a digit string of concrete length L with value n
# ------------------------------------------------------------------------------------------------


def str_resolve(ir, L):
    """Resolve a str-typed IR over the abstract digit string to (length, ('digits', lo, hi)).

    The abstract string is positions [0, L) of the raw token; a slice denotes positions [lo, hi).
    """
    if ir[0] == "rawstr":
        return (0, L)
    if ir[0] == "slice":
        lo0, hi0 = str_resolve(ir[1], L)
        n = hi0 - lo0
        a, b = ir[2], ir[3]
        a = 0 if a is None else (max(n + a, 0) if a < 0 else min(a, n))
        b = n if b is None else (max(n + b, 0) if b < 0 else min(b, n))
        if b < a:
            b = a
        return (lo0 + a, lo0 + b)
    raise Unsupported("string expression %s" % ir[0])


# ------------------------------------------------------------------------------------------------
# bit-precise back end (SMT-LIB text)
# ------------------------------------------------------------------------------------------------
W = 64


def bv(v):
    return "(_ bv%d %d)" % (v, W)


def fp_const(x: float):
    import struct
    bits = struct.unpack(">Q", struct.pack(">d", x))[0]
    s = bits >> 63
    e = (bits >> 52) & 0x7FF
    m = bits & ((1 << 52) - 1)
    return "(fp #b%d #b%s #b%s)" % (s, format(e, "011b"), format(m, "052b"))


class BitPrecise:
    """IR -> SMT-LIB term.  ints are non-negative BV64 (side conditions are the caller's)."""

    def __init__(self, L=None, n_term=None, round_nd_term=None):
        self.L = L
        self.n = n_term          # BV term: numeric value of the whole digit string
        self.round_nd_term = round_nd_term   # E2: round(x, k) for x within 1e-9 of a k-decimal value

    def f(self, ir):
        """term of float type (ints are converted exactly; caller keeps them < 2^53)."""
        t = typ(ir)
        if t == "int":
            return "((_ to_fp_unsigned 11 53) RNE %s)" % self.i(ir)
        op = ir[0]
        if op == "const":
            return fp_const(float(ir[1]))
        if op == "var":
            return ir[1]
        if op in ("add", "sub", "mul", "div"):
            return "(fp.%s RNE %s %s)" % (op, self.f(ir[1]), self.f(ir[2]))
        if op == "i2f":
            return self.f(ir[1])
        if op == "ite":
            c = self.c(ir[1])
            if c == "true":
                return self.f(ir[2])
            if c == "false":
                return self.f(ir[3])
            return "(ite %s %s %s)" % (c, self.f(ir[2]), self.f(ir[3]))
        if op == "abs":
            return "(fp.abs %s)" % self.f(ir[1])
        if op == "neg":
            return "(fp.neg %s)" % self.f(ir[1])
        if op == "round_nd" and self.round_nd_term is not None and 3 <= ir[2] <= 9:
            return self.round_nd_term
        raise Unsupported("bit-precise float op %s" % op)

    def i(self, ir):
        op = ir[0]
        if op == "const":
            if ir[1] < 0:
                raise Unsupported("negative int constant")
            return bv(ir[1])
        if op == "var":
            return ir[1]
        if op == "add":
            return "(bvadd %s %s)" % (self.i(ir[1]), self.i(ir[2]))
        if op == "mul":
            return "(bvmul %s %s)" % (self.i(ir[1]), self.i(ir[2]))
        if op == "floordiv":
            return "(bvudiv %s %s)" % (self.i(ir[1]), self.i(ir[2]))
        if op == "mod":
            return "(bvurem %s %s)" % (self.i(ir[1]), self.i(ir[2]))
        if op == "round_int":
            return "((_ fp.to_ubv %d) RNE (fp.roundToIntegral RNE %s))" % (W, self.f(ir[1]))
        if op == "trunc":
            return "((_ fp.to_ubv %d) RTZ (fp.roundToIntegral RTZ %s))" % (W, self.f(ir[1]))
        if op == "floor":
            return "((_ fp.to_ubv %d) RTN (fp.roundToIntegral RTN %s))" % (W, self.f(ir[1]))
        if op == "ite":
            c = self.c(ir[1])
            if c == "true":
                return self.i(ir[2])
            if c == "false":
                return self.i(ir[3])
            return "(ite %s %s %s)" % (c, self.i(ir[2]), self.i(ir[3]))
        if op == "str2int":
            lo, hi = str_resolve(ir[1], self.L)
            if hi == lo:
                raise Unsupported("int('') would raise")
            # digits [lo,hi) of an L-digit string with value n:  (n div 10^(L-hi)) mod 10^(hi-lo)
            t = self.n
            if self.L - hi > 0:
                t = "(bvudiv %s %s)" % (t, bv(10 ** (self.L - hi)))
            if lo > 0:
                t = "(bvurem %s %s)" % (t, bv(10 ** (hi - lo)))
            return t
        raise Unsupported("bit-precise int op %s" % op)

    def c(self, ir):
        if ir[0] in ("or", "and"):
            return "(%s %s %s)" % (ir[0], self.c(ir[1]), self.c(ir[2]))
        if ir[0] == "not":
            return "(not %s)" % self.c(ir[1])
        _, op, a, b, _ = ir
        if typ(a) == "str" or typ(b) == "str":
            # only comparisons of a slice with the empty string are supported (length is concrete)
            s, k = (a, b) if b[0] == "strconst" else (b, a)
            if k[0] != "strconst" or k[1] != "":
                raise Unsupported("string comparison")
            lo, hi = str_resolve(s, self.L)
            empty = hi == lo
            if op == "Eq":
                return "true" if empty else "false"
            if op == "NotEq":
                return "false" if empty else "true"
            raise Unsupported("string comparison op")
        if typ(a) == "int" and typ(b) == "int":
            m = {"Eq": "=", "NotEq": "distinct", "Lt": "bvult", "LtE": "bvule", "Gt": "bvugt", "GtE": "bvuge"}[op]
            return "(%s %s %s)" % (m, self.i(a), self.i(b))
        m = {"Eq": "fp.eq", "Lt": "fp.lt", "LtE": "fp.leq", "Gt": "fp.gt", "GtE": "fp.geq"}.get(op)
        if op == "NotEq":
            return "(not (fp.eq %s %s))" % (self.f(a), self.f(b))
        return "(%s %s %s)" % (m, self.f(a), self.f(b))


def run_smt(text: str, timeout: float, solver="cvc5"):
    """Returns (answer, model-text, seconds).  `(error` lines make the answer inconclusive."""
    d = tempfile.mkdtemp(prefix="vf_fk_")
    path = os.path.join(d, "q.smt2")
    with open(path, "w") as f:
        f.write(text)
    if solver == "cvc5":
        cmd = ["cvc5", "--produce-models", "--tlimit=%d" % int(timeout * 1000), path]
    else:
        cmd = ["z3-new", "-T:%d" % int(timeout), path]
    t0 = time.time()
    try:
        p = subprocess.run(cmd, capture_output=True, text=True, timeout=timeout + 30)
        out = p.stdout + p.stderr
    except subprocess.TimeoutExpired:
        out = "timeout"
    except FileNotFoundError:
        out = "(error solver binary not found)"
    dt = time.time() - t0
    try:
        os.remove(path)
        os.rmdir(d)
    except OSError:
        pass
    first = out.strip().splitlines()[0].strip() if out.strip() else "unknown"
    if "(error" in out and not (first == "unsat" and "Cannot get value" in out and out.count("(error") == 1):
        first = "error"
    if first not in ("sat", "unsat"):
        first = "unknown" if first != "error" else "error"
    return first, out, dt


# ------------------------------------------------------------------------------------------------
# axiomatised-rounding back end (z3 reals)
# ------------------------------------------------------------------------------------------------
EPS = z3.Q(1, 2 ** 53)


class Relaxed:
    """IR -> z3 Real, every float operation exact*(1+d) with a fresh |d| <= 2^-53."""

    def __init__(self, solver, tag=""):
        self.s = solver
        self.k = 0
        self.tag = tag
        self.deltas = []
        self.ops = []     # (opname, z3 term) of every rounded operation, for range side conditions

    def rnd(self, exact, opname):
        self.k += 1
        d = z3.Real("d%s_%d" % (self.tag, self.k))
        self.s.add(d >= -EPS, d <= EPS)
        self.deltas.append(d)
        r = z3.Real("r%s_%d" % (self.tag, self.k))
        self.s.add(r == exact * (1 + d))
        self.ops.append((opname, r))
        return r

    def v(self, ir, env):
        op = ir[0]
        if op == "const":
            x = ir[1]
            if isinstance(x, int):
                return z3.RealVal(x)
            from fractions import Fraction
            fr = Fraction(x)
            return z3.Q(fr.numerator, fr.denominator)
        if op == "var":
            return env[ir[1]]
        if op in ("add", "sub", "mul", "div"):
            a, b = self.v(ir[1], env), self.v(ir[2], env)
            ex = {"add": a + b, "sub": a - b, "mul": a * b, "div": a / b}[op]
            if typ(ir) == "int":
                return ex
            return self.rnd(ex, op)
        if op == "i2f":
            return self.v(ir[1], env)
        if op in ("trunc", "floor", "round_int"):
            # float -> int conversions as integer variables constrained by the real argument
            # (arguments are non-negative in every kernel query, so trunc = floor)
            x = self.v(ir[1], env)
            self.k += 1
            kv = z3.Int("k%s_%d" % (self.tag, self.k))
            kr = z3.ToReal(kv)
            if op == "round_int":
                self.s.add(kr - x <= z3.Q(1, 2), x - kr <= z3.Q(1, 2))
            else:
                self.s.add(kr <= x, x - kr < 1)
            return kr
        raise Unsupported("relaxed op %s" % op)


def ir_vars(ir, acc=None):
    acc = set() if acc is None else acc
    if isinstance(ir, tuple):
        if ir[0] == "var":
            acc.add(ir[1])
        for x in ir[1:]:
            ir_vars(x, acc)
    return acc
