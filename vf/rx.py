"""RX engine: shipped regular expressions -> z3 regular-expression terms (DESIGN.md §2.2).

The *live* pattern string is parsed with the interpreter's own ``re._parser`` and translated to
  (1) a z3 ``Re`` term (for language inclusion / disjointness / emptiness queries, all lengths), and
  (2) when the pattern is *flat* (a concatenation of literals, quantified character classes, capture
      groups around such, and optional groups), a list of elements used for capture reasoning.

Alphabet: U+0000..U+2FFFF (z3's character sort).  ``\\s`` / ``\\d`` are obtained by asking the running
interpreter's ``re`` about every code point, so they are exactly what CPython 3.12 matches.
"""
from __future__ import annotations

import dataclasses
import re
import re._constants as C
import re._parser as P
import sys
import time

import z3

MAXCP = 0x2FFFF


class Unsupported(Exception):
    pass


# ------------------------------------------------------------------------------------------------
# character sets as sorted disjoint code point ranges
# ------------------------------------------------------------------------------------------------


def _norm(rs):
    rs = sorted((max(0, a), min(MAXCP, b)) for a, b in rs if a <= b and a <= MAXCP)
    out = []
    for a, b in rs:
        if out and a <= out[-1][1] + 1:
            out[-1] = (out[-1][0], max(out[-1][1], b))
        else:
            out.append((a, b))
    return tuple(out)


def cs_neg(rs):
    out, prev = [], 0
    for a, b in rs:
        if a > prev:
            out.append((prev, a - 1))
        prev = b + 1
    if prev <= MAXCP:
        out.append((prev, MAXCP))
    return tuple(out)


def cs_union(*rss):
    return _norm([r for rs in rss for r in rs])


def cs_inter(a, b):
    return cs_neg(cs_union(cs_neg(a), cs_neg(b)))


def _category(code):
    pat = {C.CATEGORY_SPACE: r"\s", C.CATEGORY_NOT_SPACE: r"\S", C.CATEGORY_DIGIT: r"\d",
           C.CATEGORY_NOT_DIGIT: r"\D", C.CATEGORY_WORD: r"\w", C.CATEGORY_NOT_WORD: r"\W"}.get(code)
    if pat is None:
        raise Unsupported("category %r" % (code,))
    return _category_cached(pat)


_CAT_CACHE: dict = {}


def _category_cached(pat):
    if pat not in _CAT_CACHE:
        prog = re.compile(pat)
        pts = [cp for cp in range(sys.maxunicode + 1) if prog.match(chr(cp))]
        rs = []
        for cp in pts:
            if rs and cp == rs[-1][1] + 1:
                rs[-1] = (rs[-1][0], cp)
            else:
                rs.append((cp, cp))
        _CAT_CACHE[pat] = tuple(rs)
    full = _CAT_CACHE[pat]
    return _norm(full)


def category_points_above_alphabet(pat):
    """Code points above U+2FFFF that are members of the category (must be none for \\s, \\d)."""
    _category_cached(pat)
    return [r for r in _CAT_CACHE[pat] if r[1] > MAXCP]


ANY_CS = ((0, MAXCP),)
DOT_CS = cs_neg(((10, 10),))
BLANK_CS = _norm([(9, 9), (32, 32)])
ASCII_DIGIT_CS = ((48, 57),)


def cs_of(op, av):
    if op is C.LITERAL:
        return ((av, av),) if av <= MAXCP else ()
    if op is C.NOT_LITERAL:
        return cs_neg(((av, av),))
    if op is C.ANY:
        return DOT_CS
    if op is C.IN:
        neg = False
        parts = []
        for (o, a) in av:
            if o is C.NEGATE:
                neg = True
            elif o is C.LITERAL:
                parts.append(((a, a),))
            elif o is C.RANGE:
                parts.append(((a[0], a[1]),))
            elif o is C.CATEGORY:
                parts.append(_category(a))
            else:
                raise Unsupported("class item %r" % (o,))
        u = cs_union(*parts) if parts else ()
        return cs_neg(u) if neg else u
    raise Unsupported("not a character class: %r" % (op,))


def _ch(cp):
    return z3.StringVal(chr(cp))


def cs_to_re(rs):
    if not rs:
        return z3.Empty(z3.ReSort(z3.StringSort()))
    parts = [z3.Range(_ch(a), _ch(b)) for a, b in rs]
    return parts[0] if len(parts) == 1 else z3.Union(*parts)


# ------------------------------------------------------------------------------------------------
# flat element representation
# ------------------------------------------------------------------------------------------------


@dataclasses.dataclass
class Elem:
    kind: str                 # "lit" | "rep" | "opt" | "open" | "close" | "end"
    text: str = ""            # lit
    cs: tuple = ()            # rep: character set
    lo: int = 1
    hi: int = 1               # -1 = unbounded
    lazy: bool = False
    body: list = dataclasses.field(default_factory=list)   # opt: nested elements
    gid: int = 0              # open/close

    def describe(self):
        if self.kind == "lit":
            return "lit(%r)" % self.text
        if self.kind == "rep":
            return "rep(%d ranges,{%d,%d}%s)" % (len(self.cs), self.lo, self.hi, "?" if self.lazy else "")
        if self.kind == "opt":
            return "opt[%s]%s" % (",".join(e.describe() for e in self.body), "?" if self.lazy else "")
        return "%s%s" % (self.kind, self.gid or "")


MODE = ["match"]     # how the caller applies the pattern: "match" (default), "search", "fullmatch"


def set_mode(mode):
    if mode not in ("match", "search", "fullmatch"):
        raise Unsupported("pattern applied with %r" % (mode,))
    MODE[0] = mode


def call_mode(fn, attr="_regex_prog"):
    """Which re method a function applies to its compiled pattern (read from the live AST)."""
    import ast
    import inspect
    import textwrap
    src = textwrap.dedent(inspect.getsource(fn))
    modes = set()
    for n in ast.walk(ast.parse(src)):
        if isinstance(n, ast.Call) and isinstance(n.func, ast.Attribute) and n.func.attr in ("match", "search", "fullmatch", "findall", "finditer", "split", "sub"):
            base = ast.unparse(n.func.value)
            if attr in base or "regex" in base or "prog" in base:
                modes.add(n.func.attr)
    if len(modes) != 1:
        raise Unsupported("cannot tell how the pattern is applied: %s" % sorted(modes))
    m = modes.pop()
    if m not in ("match", "search", "fullmatch"):
        raise Unsupported("pattern applied with .%s()" % m)
    return m


def flatten(pattern: str):
    """Live pattern -> (elements, ngroups).  Raises Unsupported when the pattern is not flat."""
    tree = P.parse(pattern)
    if tree.state.flags & ~(re.UNICODE):
        raise Unsupported("inline flags")
    els: list = []
    _flat(tree, els, top=True)
    if MODE[0] == "fullmatch":
        if els and els[-1].kind == "end":
            pass
    elif not els or els[-1].kind != "end":
        # re.match()/search() without a final `$` accept every string with a matching *prefix*
        els.append(Elem("tail"))
    if MODE[0] == "search" and not (list(tree) and list(tree)[0] == (C.AT, C.AT_BEGINNING)):
        # re.search() without a leading `^`: any text may precede the match (leftmost match wins;
        # captures are then not decided by the flat analysis)
        els.insert(0, Elem("head"))
    # merge adjacent literals
    out: list = []
    for e in els:
        if e.kind == "lit" and out and out[-1].kind == "lit":
            out[-1] = Elem("lit", text=out[-1].text + e.text)
        else:
            out.append(e)
    return out, tree.state.groups - 1


def _flat(sub, els, top=False):
    items = list(sub)
    for pos, (op, av) in enumerate(items):
        if op is C.AT:
            if av is C.AT_BEGINNING:
                if not (top and pos == 0):
                    raise Unsupported("^ not at the beginning")
                continue            # .match() anchors at the beginning anyway
            if av is C.AT_END:
                if not (top and pos == len(items) - 1):
                    raise Unsupported("$ not at the end")
                els.append(Elem("end"))
                continue
            raise Unsupported("anchor %r" % (av,))
        if op is C.LITERAL:
            els.append(Elem("lit", text=chr(av)))
        elif op in (C.NOT_LITERAL, C.ANY, C.IN):
            els.append(Elem("rep", cs=cs_of(op, av), lo=1, hi=1))
        elif op in (C.MAX_REPEAT, C.MIN_REPEAT):
            lo, hi, body = av
            hi = -1 if hi is C.MAXREPEAT else hi
            body = list(body)
            lazy = op is C.MIN_REPEAT
            if len(body) == 1 and body[0][0] in (C.LITERAL, C.NOT_LITERAL, C.ANY, C.IN):
                els.append(Elem("rep", cs=cs_of(*body[0]), lo=lo, hi=hi, lazy=lazy))
            elif lo == 0 and hi == 1:
                inner: list = []
                _flat(body, inner)
                els.append(Elem("opt", body=inner, lazy=lazy))
            else:
                raise Unsupported("repeat of a compound body")
        elif op is C.SUBPATTERN:
            gid, add, dele, body = av
            if add or dele:
                raise Unsupported("scoped flags")
            if gid is not None:
                els.append(Elem("open", gid=gid))
            _flat(body, els)
            if gid is not None:
                els.append(Elem("close", gid=gid))
        else:
            raise Unsupported("opcode %r" % (op,))


def els_to_re(els):
    """z3 Re of a list of elements (group markers are transparent)."""
    parts = []
    for e in els:
        if e.kind == "lit":
            parts.append(z3.Re(z3.StringVal(e.text)))
        elif e.kind == "rep":
            base = cs_to_re(e.cs)
            if e.lo == 1 and e.hi == 1:
                parts.append(base)
            elif e.hi == -1:
                if e.lo == 0:
                    parts.append(z3.Star(base))
                elif e.lo == 1:
                    parts.append(z3.Plus(base))
                else:
                    parts.append(z3.Concat(z3.Loop(base, e.lo, e.lo), z3.Star(base)))
            else:
                parts.append(z3.Loop(base, e.lo, e.hi))
        elif e.kind == "opt":
            parts.append(z3.Option(els_to_re(e.body)))
        elif e.kind == "end":
            # `$` without MULTILINE: at the end, or just before a final newline
            parts.append(z3.Option(z3.Re(z3.StringVal("\n"))))
        elif e.kind in ("tail", "head"):
            parts.append(z3.Star(cs_to_re(ANY_CS)))
        elif e.kind in ("open", "close"):
            continue
        else:
            raise Unsupported(e.kind)
    if not parts:
        return z3.Re(z3.StringVal(""))
    return parts[0] if len(parts) == 1 else z3.Concat(*parts)


# ------------------------------------------------------------------------------------------------
# general (non-flat) translation for pure language queries
# ------------------------------------------------------------------------------------------------


def pattern_to_re(pattern: str):
    try:
        els, _ = flatten(pattern)
        return els_to_re(els)
    except Unsupported:
        tree = P.parse(pattern)
        if tree.state.flags & ~(re.UNICODE):
            raise Unsupported("inline flags")
        items = list(tree)
        r = _gen(items, top=True)
        if MODE[0] != "fullmatch" and (not items or items[-1] != (C.AT, C.AT_END)):
            r = z3.Concat(r, z3.Star(cs_to_re(ANY_CS)))
        if MODE[0] == "search" and not (items and items[0] == (C.AT, C.AT_BEGINNING)):
            r = z3.Concat(z3.Star(cs_to_re(ANY_CS)), r)
        return r


def _gen(items, top=False):
    parts = []
    for pos, (op, av) in enumerate(items):
        if op is C.AT:
            if av is C.AT_BEGINNING and top and pos == 0:
                continue
            if av is C.AT_END and top and pos == len(items) - 1:
                parts.append(z3.Option(z3.Re(z3.StringVal("\n"))))
                continue
            raise Unsupported("anchor position")
        if op in (C.LITERAL, C.NOT_LITERAL, C.ANY, C.IN):
            parts.append(cs_to_re(cs_of(op, av)))
        elif op in (C.MAX_REPEAT, C.MIN_REPEAT):
            lo, hi, body = av
            b = _gen(list(body))
            if hi is C.MAXREPEAT:
                parts.append(z3.Concat(z3.Loop(b, lo, lo), z3.Star(b)) if lo > 1 else
                             (z3.Plus(b) if lo == 1 else z3.Star(b)))
            else:
                parts.append(z3.Loop(b, lo, hi))
        elif op is C.SUBPATTERN:
            gid, add, dele, body = av
            if add or dele:
                raise Unsupported("scoped flags")
            parts.append(_gen(list(body)))
        elif op is C.BRANCH:
            parts.append(z3.Union(*[_gen(list(b)) for b in av[1]]))
        else:
            raise Unsupported("opcode %r" % (op,))
    if not parts:
        return z3.Re(z3.StringVal(""))
    return parts[0] if len(parts) == 1 else z3.Concat(*parts)


# ------------------------------------------------------------------------------------------------
# SPEC building blocks (verifier-side languages)
# ------------------------------------------------------------------------------------------------


def lit(s):
    return z3.Re(z3.StringVal(s))


def cat(*rs):
    rs = [r for r in rs]
    return rs[0] if len(rs) == 1 else z3.Concat(*rs)


def star(cs):
    return z3.Star(cs_to_re(cs))


def plus(cs):
    return z3.Plus(cs_to_re(cs))


BL = star(BLANK_CS)            # blanks: space / tab
DIG = plus(ASCII_DIGIT_CS)     # [0-9]+


# ------------------------------------------------------------------------------------------------
# query driver
# ------------------------------------------------------------------------------------------------


class Q:
    """Collects solver queries; each is (name, expectation, constraints, variables)."""

    def __init__(self, timeout_s=60.0):
        self.rows = []
        self.timeout_ms = int(timeout_s * 1000)
        self.solver_s = 0.0

    def check(self, name, constraints, want="unsat", model_vars=()):
        s = z3.Solver()
        s.set("timeout", self.timeout_ms)
        for c in constraints:
            s.add(c)
        t0 = time.time()
        r = str(s.check())
        dt = time.time() - t0
        self.solver_s += dt
        model = None
        if r == "sat":
            m = s.model()
            model = {}
            for v in model_vars:
                val = m.eval(v, model_completion=True)
                try:
                    model[str(v)] = val.as_string() if z3.is_string_value(val) else str(val)
                except Exception:  # noqa: BLE001
                    model[str(v)] = str(val)
        row = {"name": name, "want": want, "got": r, "s": round(dt, 3), "model": model}
        self.rows.append(row)
        return row


def z3_unescape(s: str) -> str:
    """z3 prints non-printable characters as \\u{hex}; turn the model string into a Python str."""
    return re.sub(r"\\u\{([0-9a-fA-F]+)\}", lambda m: chr(int(m.group(1), 16)), s)
