"""C20 complement: what the public (and private) module-level names are bound to after importing the
package's modules in different orders, compared in fresh interpreters.

The IM engine (vf/im.py) decides with z3 that no import order can *fail* and that every body runs once.
"Bound to the same objects" additionally needs the objects' import-time state to be independent of
the order (class registries filled by `__init_subclass__`, objects whose class depends on process-wide
settings changed at import time, ...).  That is not visible in the import-time event programs, so it
is compared concretely - exhaustively over the property's own quantifier: every module imported
first, and every ordered pair of modules imported first and second (then the rest in a fixed order).
Concrete by nature; reported as such in the evidence.
"""
from __future__ import annotations

import concurrent.futures as cf
import json
import os
import subprocess
import sys
import time

from . import REPO_DIR

PKG = "chartparse"

CHILD = r'''
import dataclasses, enum, importlib, json, logging, re, sys, types
order = json.loads(sys.argv[1])
nfrom = int(sys.argv[2]) if len(sys.argv) > 2 else 0      # the first nfrom modules are imported as `from chartparse import m`
bound = []
for i, m in enumerate(order):
    if i < nfrom:
        ns = {}
        exec("from chartparse import %s as _x" % m, ns)
        x = ns["_x"]
        bound.append([m, type(x).__name__, x is sys.modules.get("chartparse." + m)])
    else:
        importlib.import_module("chartparse." + m)

def skip(k):
    return k.startswith("__") and k.endswith("__")

def fp(v, depth, seen):
    if v is None or isinstance(v, (bool, int, float, str, bytes)):
        return repr(v)
    if isinstance(v, enum.Enum):
        return "enum:%s.%s" % (type(v).__qualname__, v.name)
    if isinstance(v, types.ModuleType):
        return "module:" + v.__name__
    if isinstance(v, (types.FunctionType, types.BuiltinFunctionType, types.MethodType)):
        return "fn:%s.%s" % (getattr(v, "__module__", "?"), getattr(v, "__qualname__", "?"))
    if isinstance(v, (classmethod, staticmethod)):
        return type(v).__name__ + ":" + fp(v.__func__, depth, seen)
    if isinstance(v, property):
        return "property:" + fp(v.fget, depth, seen)
    if isinstance(v, re.Pattern):
        return "re:%r:%d" % (v.pattern, v.flags)
    if isinstance(v, logging.Logger):
        return "logger:%s.%s:%s:level%s:handlers%d" % (type(v).__module__, type(v).__qualname__, v.name, v.level, len(v.handlers))
    if isinstance(v, type):
        if depth <= 0 or id(v) in seen or not getattr(v, "__module__", "").startswith("chartparse"):
            return "classref:%s.%s" % (getattr(v, "__module__", "?"), v.__qualname__)
        seen = seen | {id(v)}
        body = [(k, fp(x, depth - 1, seen)) for k, x in sorted(vars(v).items(), key=lambda kv: kv[0])
                if not skip(k) and k not in ("_abc_impl",)]
        return ["class", v.__module__, v.__qualname__, [fp(b, 0, seen) for b in v.__bases__], [fp(b, 0, seen) for b in v.__mro__], body]
    if isinstance(v, (list, tuple)):
        return [type(v).__name__] + [fp(x, depth - 1 if isinstance(x, type) else depth, seen) for x in v][:200]
    if isinstance(v, dict):
        return ["dict"] + [[fp(k, 0, seen), fp(x, depth - 1 if isinstance(x, type) else depth, seen)] for k, x in list(v.items())[:200]]
    if isinstance(v, (set, frozenset)):
        return [type(v).__name__] + sorted(json.dumps(fp(x, 0, seen)) for x in v)
    if dataclasses.is_dataclass(v):
        return ["dc", type(v).__qualname__] + [[f.name, fp(getattr(v, f.name, None), depth - 1, seen)] for f in dataclasses.fields(v)]
    return "obj:%s.%s" % (type(v).__module__, type(v).__qualname__)

out = {}
for name in sorted(sys.modules):
    if name == "chartparse" or name.startswith("chartparse."):
        mod = sys.modules[name]
        out[name] = [[k, fp(v, 3, frozenset())] for k, v in sorted(vars(mod).items()) if not skip(k)]
out["<from-imports>"] = [[m, [t, same]] for (m, t, same) in bound]
out["<process>"] = [["logging.getLoggerClass", "%s.%s" % (logging.getLoggerClass().__module__, logging.getLoggerClass().__qualname__)],
                    ["logging.root.level", logging.root.level], ["len(logging.root.handlers)", len(logging.root.handlers)]]
print("FP " + json.dumps(out, sort_keys=True))
'''


def _mods(repo):
    return sorted(f[:-3] for f in os.listdir(os.path.join(repo, PKG)) if f.endswith(".py") and f != "__init__.py")


def fingerprint(order, repo=REPO_DIR, nfrom=0, flags=()):
    p = subprocess.run([sys.executable] + list(flags) + ["-c", CHILD, json.dumps(order), str(nfrom)], cwd="/", capture_output=True, text=True, timeout=120,
                       env={"PYTHONPATH": repo, "PATH": os.environ.get("PATH", ""), "PYTHONHASHSEED": "0"})
    for ln in p.stdout.splitlines():
        if ln.startswith("FP "):
            return json.loads(ln[3:]), None
    return None, (p.stderr.strip().splitlines() or ["no output"])[-1]


def diff(a, b):
    out = []
    for (m, (t, same)) in a.get("<from-imports>", []):
        if t != "module" or not same:
            out.append("`from chartparse import %s` bound a %s%s" % (m, t, "" if same else " that is not sys.modules['chartparse.%s']" % m))
    for m in sorted((set(a) | set(b)) - {"<from-imports>"}):
        da, db = dict(map(lambda kv: (kv[0], kv[1]), a.get(m, []))), dict(map(lambda kv: (kv[0], kv[1]), b.get(m, [])))
        for k in sorted(set(da) | set(db)):
            if da.get(k) != db.get(k):
                out.append("%s.%s" % (m, k))
    return out


REPLAY = '''#!/usr/bin/env python
# Replay: the objects bound by the package's modules after two import orders, in fresh interpreters.
import os, sys
sys.path.insert(0, %r)
os.environ.setdefault("VERIF_REPO", "/repo")
import importlib
import vf
vf.REPO_DIR = os.environ["VERIF_REPO"]
import vf.im_state as S
order, base, nfrom, flags = %r, %r, %r, %r
a, ea = S.fingerprint(order, os.environ["VERIF_REPO"], nfrom, flags)
b, eb = S.fingerprint(base, os.environ["VERIF_REPO"], 0, flags)
print("order A:", order, ea or "ok")
print("order B:", base, eb or "ok")
bad = a is None or b is None
if not bad:
    d = S.diff(a, b)
    if d:
        bad = True
        print("names bound to different objects / objects in a different import-time state:", d[:12])
print("REPRODUCED" if bad else "NOT-REPRODUCED"); sys.exit(1 if bad else 0)
'''


def check(timeout=600, pairs=True, **kw):
    from . import VERIF_DIR
    repo = REPO_DIR
    mods = _mods(repo)
    rest = lambda first: list(first) + [m for m in mods if m not in first]   # noqa: E731
    base_order = rest(["chart"])
    t0 = time.time()
    base, err = fingerprint(base_order, repo)
    if base is None:
        return {"verdict": "inconclusive", "detail": "baseline order does not import: %s" % err, "queries": 1, "nontrivial": 0, "solver_s": 0.0}
    # (order, how many leading modules are imported with the `from chartparse import m` spelling, interpreter flags)
    cases = [(rest([m]), 0, ()) for m in mods]
    if pairs:
        cases += [(rest([a, b]), 0, ()) for a in mods for b in mods if a != b]
    cases += [(list(reversed(mods)), 0, ()), (mods[1::2] + mods[0::2], 0, ())]
    cases += [(rest([m]), 1, ()) for m in mods]                                  # the other import spelling, each module first
    cases += [(rest([a, b]), 2, ()) for a in ("tick", "exceptions", "chart") for b in mods if a != b]
    bad = None
    n = 0
    with cf.ThreadPoolExecutor(max_workers=int(os.environ.get("VERIF_JOBS", "16"))) as ex:
        for (order, nf, fl), (fpv, e) in zip(cases, ex.map(lambda c: fingerprint(c[0], repo, c[1], c[2]), cases)):
            n += 1
            if bad is not None:
                continue
            if fpv is None:
                # a failing import is the IM obligation's business (and is reported there with its own
                # replay); here it only means this order cannot be compared
                continue
            d = diff(fpv, base)
            if d:
                bad = (order, d, nf, ())
        # interpreter optimisation flags: every module still importable first, same bound objects as the
        # chart-first order under the same flags
        for fl in (("-O",), ("-OO",)):
            fbase, ferr = fingerprint(base_order, repo, 0, fl)
            n += 1
            if fbase is None and bad is None:
                bad = (base_order, ["not importable under %s: %s" % (" ".join(fl), ferr)], 0, fl)
            fcases = [(rest([m]), 0, fl) for m in mods]
            for (order, nf, _), (fpv, e) in zip(fcases, ex.map(lambda c: fingerprint(c[0], repo, c[1], c[2]), fcases)):
                n += 1
                if bad is not None:
                    continue
                if fpv is None:
                    bad = (order, ["not importable under %s: %s" % (" ".join(fl), e)], 0, fl)
                elif fbase is not None and diff(fpv, fbase):
                    bad = (order, diff(fpv, fbase), 0, fl)
    res = {"queries": n + 1, "nontrivial": n + 1, "solver_s": 0.0, "validated": n + 1, "wall": round(time.time() - t0, 1),
           "samples": [{"baseline_order": base_order, "names_compared": sum(len(v) for v in base.values()),
                        "orders": "%d first-imports%s + 2 permutations; %d first-imports and 33 pairs in the `from chartparse import m` spelling; %d first-imports under -O and under -OO"
                                  % (len(mods), " + %d ordered pairs" % (len(mods) * (len(mods) - 1)) if pairs else "", len(mods), len(mods))}]}
    if bad:
        order, d, nf, fl = bad
        res.update(verdict="candidate", detail="after importing in the order %s (%d `from` imports, flags %s) these names differ from the chart-first order: %s" % (order[:3], nf, list(fl), d[:6]),
                   call="import order %s" % order, replay_src=REPLAY % (VERIF_DIR, order, base_order, nf, list(fl)))
    else:
        res.update(verdict="holds", detail="identical bound objects (structural fingerprint, depth 3) in %d import orders" % (n + 1))
    return res
