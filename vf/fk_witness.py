"""Solver-generated boundary witnesses replayed through the public tick-to-time query (C01 / C12).

The kernel lemmas (fk_props K1-K3) and the CrossHair dataflow harnesses decide the timing properties
by composition: query(t) = stamp(governing) + timedelta(seconds=KERNEL(t - tick, tempo, R)).  A change
that puts arithmetic *outside* that composition (a floor on the offset, a cached per-tick factor, a
time rebuilt from its fields) makes the dataflow harnesses "not judgeable" rather than wrong.  This
obligation closes that gap from the other side: z3 produces integer witnesses inside the rare regions
where such arithmetic goes wrong - sub-microsecond ticks before a tempo change, a tempo change more than a
day into the chart, exact half-microsecond ties, extreme tempo ratios - and each witness is run through the
REAL SyncTrack.from_chart_lines / timestamp_at_tick_no_optimize_return (native floats, native timedelta) and
judged against exact rationals.  The solver chooses the inputs; the verdict on each is a concrete replay.
"""
from __future__ import annotations

import sys
import time
from fractions import Fraction

import z3

from . import REPO_DIR, VERIF_DIR

if REPO_DIR not in sys.path:
    sys.path.insert(0, REPO_DIR)

B_US = Fraction(501, 1000)          # per-segment bound of C01 (0.5 us + float noise below 1e6 s, DESIGN 4 C01)
PER_REGION = 5


def _exact_us(ticks_bpms, R, t):
    """Exact tempo-map time of tick t in microseconds, and the number of non-empty segments traversed."""
    total, z = Fraction(0), 0
    for i, (tk, n) in enumerate(ticks_bpms):
        nxt = ticks_bpms[i + 1][0] if i + 1 < len(ticks_bpms) else None
        hi = t if nxt is None or t < nxt else nxt
        if hi > tk:
            total += Fraction(60000 * (hi - tk) * 10**6, n * R)
            z += 1
        if nxt is None or t < nxt:
            break
    return total, z


def run_witness(w, repo_first=True):
    """Returns None if the real code satisfies C01/C12 on this witness, else a description."""
    import chartparse.chart  # noqa: F401
    import chartparse.sync as S
    R, tb = w["R"], w["map"]
    lines = ["  0 = TS 4"] + ["  %d = B %d" % (t, n) for (t, n) in tb]
    st = S.SyncTrack.from_chart_lines(R, lines)
    be = st.bpm_events
    qs = sorted(set(q for q in w["queries"] if q >= 0))
    prev = None
    strict = all(n * R <= 3 * 10**7 * 1000 for (_, n) in tb)
    for q in qs:
        e, z = _exact_us(tb, R, q)
        if e >= 10**12:
            continue
        ts = be.timestamp_at_tick_no_optimize_return(q)
        us = (ts.days * 86400 + ts.seconds) * 10**6 + ts.microseconds
        if abs(us - e) > max(z, 1) * B_US:
            return "C01: tick %d -> %d us, exact %s us (%d segments)" % (q, us, float(e), z)
        if q == 0 and us != 0:
            return "C01: tick 0 is not time zero"
        if prev is not None:
            if us < prev[1]:
                return "C12: time(%d) = %d us > time(%d) = %d us" % (prev[0], prev[1], q, us)
            if strict and us == prev[1] and q > prev[0]:
                return "C12: ticks %d and %d share %d us although every tick lasts >= 2 us" % (prev[0], q, us)
        prev = (q, us)
    for i, ev in enumerate(be.events):
        ts = ev.timestamp
        us = (ts.days * 86400 + ts.seconds) * 10**6 + ts.microseconds
        q = be.timestamp_at_tick_no_optimize_return(ev.tick)
        qus = (q.days * 86400 + q.seconds) * 10**6 + q.microseconds
        if us != qus:
            return "C11/C12: tempo event %d stored at %d us, queried at %d us" % (i, us, qus)
    return None


REPLAY = '''#!/usr/bin/env python
# Replay of a solver-generated boundary witness through the real tick-to-time query.
import os, sys
REPO = os.environ.get("VERIF_REPO", "/repo")
sys.path[:0] = [%r, REPO]
import vf
vf.REPO_DIR = REPO
import vf.fk_witness as W
w = %r
if w.get("decimal_context"):
    import decimal
    decimal.setcontext(decimal.Context(prec=6, rounding=decimal.ROUND_DOWN))
try:
    r = W.run_chart_witness(w) if w.get("chart") else W.run_witness(w)
except Exception as e:
    import traceback; traceback.print_exc()
    r = "raised %%s: %%s" %% (type(e).__name__, e)
print("witness:", w)
print("deviation:", r)
print("REPRODUCED" if r else "NOT-REPRODUCED"); sys.exit(1 if r else 0)
'''


def _models(build, nvars, limit, timeout):
    """Up to `limit` distinct models of the region `build(solver) -> list of Int vars`, spread over
    residue classes so that consecutive models are not neighbours."""
    out, last = [], "unsat"
    for j in range(limit):
        s = z3.Solver()
        s.set("timeout", int(timeout * 1000))
        vs = build(s)
        for (vals) in out:
            s.add(z3.Or(*[v != x for v, x in zip(vs[:nvars], vals[:nvars])]))
        s.push()
        for i, v in enumerate(vs[:nvars]):
            s.add(v % (5 + 2 * i) == (3 * j + i) % (5 + 2 * i))      # spread (dropped if it makes the region empty)
        r = s.check()
        if r != z3.sat:
            s.pop()
            r = s.check()
        last = str(r)
        if r != z3.sat:
            break
        m = s.model()
        out.append([m.eval(v, model_completion=True).as_long() for v in vs])
    return out, ("sat" if out else last)


def witnesses(timeout=60):
    rows, ws = [], []
    I = z3.Int     # noqa: E741

    def add(name, build, nvars, mk):
        t0 = time.time()
        ms, r = _models(build, nvars, PER_REGION, timeout)
        rows.append({"name": name, "got": r, "models": len(ms), "s": round(time.time() - t0, 2)})
        for vals in ms:
            ws.append(dict(mk(*vals), region=name))

    for R in (61, 192, 480, 100000):
        # A: sub-microsecond ticks (n*R > 6e10) for t1 ticks, then a slower tempo
        def a(s, R=R):
            n0, n1, t1 = I("n0"), I("n1"), I("t1")
            s.add(n0 >= 1, n0 <= 10**9, n1 >= 1, n1 <= 10**6, t1 >= 3, t1 <= 5000, n0 * R > 6 * 10**10)
            return [n0, t1, n1]
        add("A:sub-microsecond ticks then a tempo change, R=%d" % R, a, 2,
            lambda n0, t1, n1, R=R: {"R": R, "map": [(0, n0), (t1, n1)], "queries": list(range(max(0, t1 - 6), t1 + 3)) + [0, 1, 2]})
    for R in (192, 960):
        # A2: a long run (>= 1000 ticks) of ticks lasting 0.25 .. 0.8 us, then a slower tempo
        def a2(s, R=R):
            n0, n1, t1 = I("n0"), I("n1"), I("t1")
            s.add(n0 >= 1, n0 <= 10**9, n1 >= 1000, n1 <= 10**6, t1 >= 1000, t1 <= 10**5, 4 * n0 * R >= 5 * 6 * 10**10, n0 * R <= 4 * 6 * 10**10)
            return [n0, t1, n1]
        add("A2:long run of sub-microsecond ticks then a tempo change, R=%d" % R, a2, 2,
            lambda n0, t1, n1, R=R: {"R": R, "map": [(0, n0), (t1, n1)], "queries": list(range(t1 - 4, t1 + 3)) + [0, 1, t1 // 2]})
    for R in (1, 192, 480):
        # B: a tempo change more than a day (and less than 10^6 s) into the chart
        def b(s, R=R):
            n0, n1, t1 = I("n0"), I("n1"), I("t1")
            s.add(n0 >= 1, n0 <= 10**6, n1 >= 1000, n1 <= 10**8, t1 >= 1, t1 <= 10**8)
            s.add(60000 * t1 >= 86400 * n0 * R, 60000 * t1 <= 5 * 10**5 * n0 * R)
            return [n0, t1, n1]
        add("B:tempo change more than a day into the chart, R=%d" % R, b, 2,
            lambda n0, t1, n1, R=R: {"R": R, "map": [(0, n0), (t1, n1)], "queries": [0, 1, t1 - 1, t1, t1 + 1, t1 + 192, t1 + 10**4]})
    for R in (192, 480, 7):
        # C: the offset of the queried tick is an exact half microsecond (rounding ties):
        #    2 * 60000 * 10^6 * d / (n0 * R) is an odd integer (linear for each listed n0)
        def c(s, R=R):
            n0, d, k = I("n0"), I("d"), I("k")
            s.add(d >= 1, d <= 10**6, k >= 0)
            s.add(z3.Or(*[z3.And(n0 == c0, 2 * 6 * 10**10 * d == (2 * k + 1) * c0 * R) for c0 in (122880000, 8192000, 4096000, 65536)]))
            return [d, k, n0]
        add("C:exact half-microsecond offsets, R=%d" % R, c, 1,
            lambda d, k, n0, R=R: {"R": R, "map": [(0, n0), (d, n0 + 1), (2 * d, n0)], "queries": [0, d - 1, d, d + 1, 2 * d, 3 * d]})
    for R in (192, 1):
        # D: extreme tempo ratios (below 1 BPM against the top of the range), three segments
        def d_(s, R=R):
            n0, n1, t1, t2 = I("n0"), I("n1"), I("t1"), I("t2")
            s.add(n0 >= 1, n0 <= 999, n1 >= 9 * 10**8, n1 <= 10**9, t1 >= 1, t2 > t1, t2 <= t1 + 10**6)
            s.add(60000 * t1 <= 10**5 * n0 * R)
            return [n0, n1, t1, t2]
        add("D:extreme tempo ratios, R=%d" % R, d_, 3,
            lambda n0, n1, t1, t2, R=R: {"R": R, "map": [(0, n0), (t1, n1), (t2, n0 + 7)], "queries": [0, t1 - 1, t1, t1 + 1, t2 - 1, t2, t2 + 1, t2 + 5]})
    for R in (192, 480):
        # E: the tempo in force restated (same BPM again) at ticks whose time is not a whole microsecond
        def e_(s, R=R):
            n0, t1, t2 = I("n0"), I("t1"), I("t2")
            s.add(n0 >= 20000, n0 <= 400000, t1 >= 1, t1 <= 5000, t2 > t1, t2 <= 10000)
            s.add((6 * 10**10 * t1) % (n0 * R) != 0, (6 * 10**10 * (t2 - t1)) % (n0 * R) != 0)
            return [n0, t1, t2]
        add("E:tempo restated at ticks off the microsecond grid, R=%d" % R, e_, 3,
            lambda n0, t1, t2, R=R: {"R": R, "map": [(0, n0), (t1, n0), (t2, n0), (t2 + t1, n0 + 1)],
                                     "queries": [0, t1 - 1, t1, t1 + 1, t2, t2 + 1, t2 + t1, t2 + t1 + 7, 3 * t2]})
    return rows, ws


def run_chart_witness(w):
    """The witness as a whole chart: events of every kind at the witness ticks, in two tracks; every stored
    timestamp must be the un-hinted query of the chart's own tempo map for its tick (C11/C12: equal ticks
    have identical timestamps in every track) and satisfy the C01 bound."""
    import io
    import logging
    import chartparse.chart as C
    R, tb = w["R"], w["map"]
    qs = sorted(set(q for q in w["queries"] if q >= 0 and _exact_us(tb, R, q)[0] < 10**12))[:12]
    lines = ["[Song]", "{", "  Resolution = %d" % R, "}", "[SyncTrack]", "{", "  0 = TS 4"] + ["  %d = B %d" % (t, n) for (t, n) in tb] + \
            ["  %d = TS 3 3" % q for q in qs[1:3]] + ["}", "[Events]", "{"] + ['  %d = E "section s%d"' % (q, i) for i, q in enumerate(qs)] + ["}"]
    for name in ("ExpertSingle", "HardDrums"):
        lines += ["[%s]" % name, "{"] + ["  %d = N %d %d" % (q, i % 5, (qs[i + 1] - q) if i + 1 < len(qs) else 0) for i, q in enumerate(qs)] + \
                 ["  %d = S 2 1" % q for q in qs[:2]] + ["  %d = E solo" % qs[-1], "}"]
    logging.disable(logging.CRITICAL)
    try:
        chart = C.Chart.from_file(io.StringIO("\n".join(lines) + "\n"))
    finally:
        logging.disable(logging.NOTSET)
    be = chart.sync_track.bpm_events

    def us_(ts):
        return (ts.days * 86400 + ts.seconds) * 10**6 + ts.microseconds
    evs = [(e.tick, e.timestamp, type(e).__name__) for e in chart.sync_track.time_signature_events]
    evs += [(e.tick, e.timestamp, type(e).__name__) for e in chart.global_events_track.section_events]
    for dd in chart.instrument_tracks.values():
        for t in dd.values():
            evs += [(e.tick, e.timestamp, "NoteEvent") for e in t.note_events] + [(e.end_tick, e.end_timestamp, "NoteEvent.end") for e in t.note_events]
            evs += [(e.tick, e.timestamp, type(e).__name__) for e in t.star_power_events + t.track_events]
    if len(evs) < 4 * len(qs):
        return "chart witness: events missing (%d)" % len(evs)
    for tick, ts, kind in evs:
        e, z = _exact_us(tb, R, tick)
        if e >= 10**12:
            continue
        q = us_(be.timestamp_at_tick_no_optimize_return(tick))
        if us_(ts) != q:
            return "C11/C12: %s at tick %d stored at %d us, the chart's tempo map says %d us" % (kind, tick, us_(ts), q)
        if abs(q - e) > max(z, 1) * B_US:
            return "C01: %s at tick %d -> %d us, exact %s us" % (kind, tick, q, float(e))
    return None


def check(timeout=120, **kw):
    rows, ws = witnesses(timeout=min(timeout, 60))
    t0 = time.time()
    bad = None
    n = 0
    for w in ws:
        n += 1
        try:
            r = run_witness(w)
        except Exception as e:  # noqa: BLE001
            r = "raised %s: %s" % (type(e).__name__, e)
        if r:
            bad = (w, r)
            break
        try:
            r = run_chart_witness(w)
        except Exception as e:  # noqa: BLE001
            r = "chart witness raised %s: %s" % (type(e).__name__, e)
        if r:
            bad = (dict(w, chart=True), r)
            break
    if bad is None:
        # the same witnesses in a host application that has changed process-wide numeric settings the
        # library does not own (thread-local decimal context, float repr style is fixed): times must not move
        import decimal
        saved = decimal.getcontext().copy()
        try:
            decimal.setcontext(decimal.Context(prec=6, rounding=decimal.ROUND_DOWN))
            for w in ws[::3]:
                n += 1
                try:
                    r = run_witness(w)
                except Exception as e:  # noqa: BLE001
                    r = "raised %s: %s" % (type(e).__name__, e)
                if r:
                    bad = (dict(w, decimal_context="prec=6,ROUND_DOWN"), "under decimal context prec=6: " + r)
                    break
        finally:
            decimal.setcontext(saved)
    res = {"queries": len(rows) + n, "nontrivial": sum(1 for r in rows if r["got"] == "sat") + n, "validated": n,
           "solver_s": round(sum(r["s"] for r in rows), 2), "query_log": rows, "replay_wall_s": round(time.time() - t0, 2),
           "samples": [{k: w[k] for k in ("region", "R", "map")} for w in ws[:3]]}
    empty = [r["name"] for r in rows if r["got"] != "sat"]
    if bad:
        w, r = bad
        res.update(verdict="candidate", detail="%s on witness %s" % (r, {k: w[k] for k in ("region", "R", "map")}), call=str(w["map"]),
                   replay_src=REPLAY % (VERIF_DIR, w))
    elif empty:
        res.update(verdict="inconclusive", detail="no witness produced for: %s" % empty)
    else:
        res.update(verdict="holds", detail="%d solver-generated witnesses in %d regions replayed through the real query" % (n, len(rows)))
    return res
