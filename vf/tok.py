"""Token lines (stub S7'): a chart line abstracted to (kind, fields) with symbolic integer fields.

RX proves, for all strings, that every canonical line of kind k is accepted by recogniser k only and
that its capture groups are the written digit strings / words; here the compiled pattern objects are
replaced by stubs that accept exactly the token lines of their kind and hand out the fields as
abstract digit tokens, so that the *whole* real pipeline (dispatcher, from_chart_line, builders,
events) runs on symbolic integers.  int(Digits) is the token's value (ch_plugin; __int__ concretely).
"""
from __future__ import annotations


class Digits(str):
    _vf_abstract = True
    _vf_digits = True

    def __new__(cls, value):
        self = str.__new__(cls, "<digits>")
        self.value = value
        return self

    def __int__(self):
        return self.value

    def __format__(self, spec):
        return "<digits>"


_SERIAL = [0]
MATCHES = [0]      # successful stub-recogniser matches since the last recogniser_patches() call
ARMED = [False]
SKELETON = {"N": "  %d = N 0 0", "S": "  %d = S 2 0", "E": "  %d = E tok", "B": "  %d = B 120000", "TS": "  %d = TS 4", "A": "  %d = A 0",
            "LYR": '  %d = E "lyric tok"', "SEC": '  %d = E "section tok"', "TXT": '  %d = E "tok"', "?": "garbage line %d"}


class TokLine(str):
    """A line of kind `kind` (e.g. 'N') whose capture groups are `groups` (Digits / str / None).

    Every token line has its own text (a serial number), as distinct lines of a file have: code that
    keys anything by the line text then behaves as it would on real, distinct lines."""

    def __new__(cls, kind, groups, text=None):
        _SERIAL[0] += 1
        if text is None:
            # looks like a line of its kind (same literal skeleton, the serial number in place of the
            # tick) so that code which pre-filters or dispatches on the text besides using the
            # recogniser still sees a line of this kind; the captured fields are the `groups`
            text = SKELETON.get(kind, "<%s line #%%d>" % kind) % _SERIAL[0]
        self = str.__new__(cls, text)
        self.kind = kind
        self.groups_ = tuple(groups)
        return self


class StubMatch:
    def __init__(self, groups):
        self._g = tuple(groups)

    def groups(self):
        return self._g

    def group(self, i=0):
        return self._g[i - 1]


class StubProg:
    def __init__(self, kind, pattern):
        self.kind = kind
        self.pattern = pattern

    def match(self, line):
        if getattr(line, "kind", None) == self.kind:
            MATCHES[0] += 1
            return StubMatch(line.groups_)
        return None


def recogniser_patches():
    """(object, attribute, stub) triples for vf.h.patched: the nine event-line recognisers."""
    import chartparse.globalevents as G
    import chartparse.instrument as I
    import chartparse.sync as S
    MATCHES[0] = 0
    ARMED[0] = True
    table = [("N", I.NoteEvent.ParsedData), ("S", I.StarPowerEvent.ParsedData), ("E", I.TrackEvent.ParsedData),
             ("B", S.BPMEvent.ParsedData), ("TS", S.TimeSignatureEvent.ParsedData), ("A", S.AnchorEvent.ParsedData),
             ("LYR", G.LyricEvent.ParsedData), ("SEC", G.SectionEvent.ParsedData), ("TXT", G.TextEvent.ParsedData)]
    return [(cls, "_regex_prog", StubProg(k, cls._regex)) for k, cls in table]


def N(tick, idx, sus):
    return TokLine("N", (Digits(tick), Digits(idx), Digits(sus)))


def S(tick, length):
    return TokLine("S", (Digits(tick), Digits(length)))


def E(tick, word):
    return TokLine("E", (Digits(tick), word))


def B(tick, raw):
    return TokLine("B", (Digits(tick), raw))


def TS(tick, upper, lower=None):
    return TokLine("TS", (Digits(tick), Digits(upper), None if lower is None else Digits(lower)))


def A(tick, us):
    return TokLine("A", (Digits(tick), Digits(us)))


def GE(kind, tick, value):
    return TokLine(kind, (Digits(tick), value))


def GARBAGE(i=0):
    return TokLine("?", (), "garbage line %d" % i)


def bypassed():
    """True when a token-line harness ran although NO line went through a stubbed recogniser: the
    implementation recognises lines by some other means (its own combined pattern, string methods),
    which read the decoy text of the token lines instead of their fields - the abstraction S7' does not
    apply to such code and the harness cannot judge it."""
    return ARMED[0] and MATCHES[0] == 0
