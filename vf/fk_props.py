"""FK obligations: kernel lemmas K1-K6 and glue lemmas G1-G4 (DESIGN §2.3, §2.5)."""
from __future__ import annotations

import ast
import inspect
import sys
import textwrap
import time
from fractions import Fraction

import z3

from . import REPO_DIR, fk
from .fk import BitPrecise, Env, Relaxed, Unsupported, bv, fn_body, fp_const, ir_vars, run_smt, split_guards, straight_line, typ

if REPO_DIR not in sys.path:
    sys.path.insert(0, REPO_DIR)


def _res(rows, fail=None, inconclusive=None, samples=None, validated=0, extra=""):
    out = {"queries": len(rows), "nontrivial": sum(1 for r in rows if r.get("nontrivial", True)),
           "solver_s": round(sum(r["s"] for r in rows), 2), "samples": samples or [], "validated": validated,
           "query_log": [{k: v for k, v in r.items() if k != "model"} for r in rows][:60]}
    if fail:
        out.update(verdict="candidate", detail=fail["detail"], call=fail.get("call"), replay_src=fail["replay_src"])
    elif inconclusive:
        out.update(verdict="inconclusive", detail="; ".join(inconclusive)[:800])
    else:
        out.update(verdict="holds", detail="%d queries as expected. %s" % (len(rows), extra))
    return out


# ------------------------------------------------------------------------------------------------
# K6: eighth-triplet threshold
# ------------------------------------------------------------------------------------------------
K6_REPLAY = '''#!/usr/bin/env python
# Replay K6: note_duration_to_ticks(R, EIGHTH_TRIPLET) must be R/3 rounded to the nearest tick.
import os, sys
REPO = os.environ.get("VERIF_REPO", "/repo"); sys.path.insert(0, REPO)
import chartparse.chart
import chartparse.tick as T
R = %d
f = getattr(T.note_duration_to_ticks, "__wrapped__", T.note_duration_to_ticks)
got = f(R, T.NoteDuration.EIGHTH_TRIPLET)
want = (R + 1) // 3          # R/3 is never a tie, so nearest = floor((R+1)/3)
print("R", R, "got", got, "want", want)
print("REPRODUCED" if got != want else "NOT-REPRODUCED"); sys.exit(1 if got != want else 0)
'''


def k6(timeout=120, rmax=10 ** 8, **kw):
    import chartparse.chart  # noqa: F401
    import chartparse.tick as T
    f = getattr(T.note_duration_to_ticks, "__wrapped__", T.note_duration_to_ticks)
    rows, inc = [], []
    # validation of the encoding (and a net under code shapes the encoder does not support): the live
    # function itself on every resolution up to 3000 and a spread of larger ones
    for R in list(range(1, 3001)) + [3 * 10**k + d for k in range(4, 9) for d in (-1, 0, 1, 2)]:
        try:
            got = f(R, T.NoteDuration.EIGHTH_TRIPLET)
        except Exception as e:  # noqa: BLE001
            got = "raised %s" % type(e).__name__
        if got != (R + 1) // 3:
            rows.append({"name": "K6:live function at R=%d" % R, "got": str(got), "s": 0.0})
            return _res(rows, fail={"detail": "K6: note_duration_to_ticks(%d, EIGHTH_TRIPLET) = %s, nearest tick to R/3 is %d" % (R, got, (R + 1) // 3),
                                    "call": "R=%s" % R, "replay_src": K6_REPLAY % R})
    rows.append({"name": "K6:live function on 3020 resolutions", "got": "unsat", "s": 0.0})
    try:
        fdef, body = fn_body(f)
        argnames = [a.arg for a in fdef.args.args]
        env = Env({argnames[0]: ("var", "R", "int")},
                  attr_consts={argnames[1] + ".value": T.NoteDuration.EIGHTH_TRIPLET.value})
        ret = straight_line(body, env)
        if ret is None or typ(ret) != "int":
            raise Unsupported("kernel does not return an int expression")
        bp = BitPrecise()
        term = bp.i(ret)
    except Unsupported as e:
        return _res(rows, inconclusive=["K6: live note_duration_to_ticks not encodable: %s" % e])
    text = "\n".join([
        "(set-logic QF_BVFP)", "(declare-const R (_ BitVec 64))",
        "(assert (bvuge R %s))" % bv(1), "(assert (bvule R %s))" % bv(rmax),
        "(assert (distinct %s (bvudiv (bvadd R %s) %s)))" % (term, bv(1), bv(3)),
        "(check-sat)", "(get-value (R))"])
    ans, out, dt = run_smt(text, timeout)
    rows.append({"name": "K6:round(R/3)==(R+1)//3,R<=%d" % rmax, "got": ans, "s": round(dt, 2)})
    # vacuity: the range premise alone is satisfiable
    ans2, _, dt2 = run_smt("\n".join(["(set-logic QF_BVFP)", "(declare-const R (_ BitVec 64))",
                                      "(assert (bvuge R %s))" % bv(1), "(assert (bvule R %s))" % bv(rmax),
                                      "(check-sat)"]), 30)
    rows.append({"name": "K6:premise", "got": ans2, "s": round(dt2, 2)})
    if ans2 != "sat":
        inc.append("K6 premise " + ans2)
    if ans == "sat":
        import re as _re
        m = _re.search(r"#x([0-9a-fA-F]{16})|#b([01]{64})", out)
        R = int(m.group(1), 16) if m and m.group(1) else (int(m.group(2), 2) if m else None)
        return _res(rows, fail={"detail": "K6 sat: R=%s" % R, "call": "R=%s" % R, "replay_src": K6_REPLAY % R})
    if ans != "unsat":
        inc.append("K6 -> %s (%s)" % (ans, out[:200]))
    return _res(rows, inconclusive=inc, samples=[{"encoded": ast.unparse(ast.parse(textwrap.dedent(inspect.getsource(f))).body[0].body[-1])}],
                extra="live expression: %s" % term[:80])


# ------------------------------------------------------------------------------------------------
# K5: tempo decode is the nearest float to n/1000 and is accepted
# ------------------------------------------------------------------------------------------------
K5_REPLAY = '''#!/usr/bin/env python
# Replay K5: "<tick> = B <n>" must be accepted and decode to the float nearest n/1000.
import os, sys
REPO = os.environ.get("VERIF_REPO", "/repo"); sys.path.insert(0, REPO)
import chartparse.chart
from chartparse.sync import BPMEvent
raw = %r
bad = False
try:
    d = BPMEvent.ParsedData.from_chart_line("  0 = B " + raw)
    e = BPMEvent.from_parsed_data(d, None, 192)
    print("raw", raw, "bpm", repr(e.bpm), "want", repr(int(raw) / 1000))
    bad = e.bpm != int(raw) / 1000
except Exception as ex:
    print("raw", raw, "raised", type(ex).__name__, ex)
    bad = True
print("REPRODUCED" if bad else "NOT-REPRODUCED"); sys.exit(1 if bad else 0)
'''


def _decode_ir(L):
    import chartparse.sync as S
    fdef, body = fn_body(S.BPMEvent.from_parsed_data.__func__)
    prefix = []
    for st in body:
        if isinstance(st, (ast.Assign, ast.AnnAssign)):
            prefix.append(st)
        else:
            break
    argnames = [a.arg for a in fdef.args.args]   # cls, data, prev_event, resolution
    env = Env({argnames[1] + ".raw_bpm": ("rawstr", "str")})
    straight_line(prefix, env)
    if "bpm" not in env.vars:
        # the value handed to the constructor as bpm=
        raise Unsupported("no `bpm` assignment in the decode prefix")
    return env.vars["bpm"]


def _validation_conds(bpm_ir):
    """IR of every `if <test>: raise` condition of BPMEvent.__post_init__, with self.bpm := bpm_ir
    (straight-line assignments before a test are evaluated)."""
    import chartparse.sync as S
    pi = S.BPMEvent.__dict__.get("__post_init__")
    if pi is None:
        return [], []
    fdef, body = fn_body(pi)
    env = Env({"self.bpm": bpm_ir})
    conds, srcs = [], []
    for st in body:
        if isinstance(st, ast.If) and st.body and all(isinstance(x, ast.Raise) for x in st.body) and not st.orelse:
            conds.append(fk.tr_cond(st.test, env))
            srcs.append(ast.unparse(st.test))
        elif isinstance(st, (ast.Assign, ast.AnnAssign)):
            straight_line([st], env)
        elif isinstance(st, (ast.Pass,)) or (isinstance(st, ast.Expr) and isinstance(st.value, ast.Constant)):
            continue
        else:
            raise Unsupported("BPMEvent.__post_init__ statement %s" % type(st).__name__)
    return conds, srcs


def k5(timeout=300, lengths=(1, 2, 3, 4, 5, 6, 7), **kw):
    import chartparse.chart  # noqa: F401
    import re as _re
    rows, inc, samples = [], [], []
    tests = None

    def model_n(out):
        m = _re.search(r"#x([0-9a-fA-F]{16})|#b([01]{64})", out)
        return int(m.group(1), 16) if m and m.group(1) else (int(m.group(2), 2) if m else None)

    for L in lengths:
        spec = "(fp.div RNE ((_ to_fp_unsigned 11 53) RNE n) %s)" % fp_const(1000.0)
        try:
            ir = _decode_ir(L)
            bp = BitPrecise(L=L, n_term="n", round_nd_term=spec)
            term = bp.f(ir)
        except Unsupported as e:
            inc.append("K5: decode prefix not encodable (L=%d): %s" % (L, e))
            continue
        head = ["(set-logic QF_BVFP)", "(declare-const n (_ BitVec 64))",
                "(assert (bvuge n %s))" % bv(1), "(assert (bvult n %s))" % bv(10 ** L)]
        # exactness: the decoded tempo is the binary64 nearest to n/1000
        ans, out, dt = run_smt("\n".join(head + ["(assert (not (fp.eq %s %s)))" % (term, spec), "(check-sat)", "(get-value (n))"]), timeout)
        rows.append({"name": "K5:decode==RN(n/1000),L=%d" % L, "got": ans, "s": round(dt, 2)})
        if ans == "sat":
            n = model_n(out)
            raw = str(n).zfill(L)
            return _res(rows, fail={"detail": "K5 sat: raw_bpm=%s decodes to a float other than %s/1000" % (raw, n),
                                    "call": "raw_bpm=%r" % raw, "replay_src": K5_REPLAY % raw})
        if ans != "unsat":
            inc.append("K5 exactness L=%d -> %s" % (L, ans))
        # acceptance: no `if <test>: raise` of the validation fires on the decoded value
        if True:
            try:
                cirs, tests = _validation_conds(ir)
                conds = [bp.c(c_) for c_ in cirs]
            except Unsupported as e:
                if not any("validation" in x for x in inc):
                    inc.append("K5: validation not encodable: %s" % e)
                conds = None
            if conds:
                cond = conds[0] if len(conds) == 1 else "(or %s)" % " ".join(conds)
                ans, out, dt = run_smt("\n".join(head + ["(assert %s)" % cond, "(check-sat)", "(get-value (n))"]), timeout)
                rows.append({"name": "K5:accepted,L=%d" % L, "got": ans, "s": round(dt, 2)})
                if ans == "sat":
                    n = model_n(out)
                    raw = str(n).zfill(L)
                    return _res(rows, fail={"detail": "K5 sat: raw_bpm=%s is rejected by the tempo validation" % raw,
                                            "call": "raw_bpm=%r" % raw, "replay_src": K5_REPLAY % raw})
                if ans != "unsat":
                    inc.append("K5 acceptance L=%d -> %s" % (L, ans))
        samples.append({"L": L, "decode_term": term[:160]})
    return _res(rows, inconclusive=inc, samples=samples[:3],
                extra="validation tests: %s" % (tests if tests is not None else "n/a"))


# ------------------------------------------------------------------------------------------------
# K1-K4: the seconds kernel in the axiomatised-rounding model
# ------------------------------------------------------------------------------------------------
DMAX, NMAX, RMAX, SMAX = 2 * 10 ** 8, 10 ** 9, 10 ** 8, 10 ** 6


def _kernel_ir():
    import chartparse.tick as T
    fdef, body = fn_body(T.seconds_from_ticks_at_bpm)
    guards, tail = split_guards(body)
    argnames = [a.arg for a in fdef.args.args]
    env = Env({argnames[0]: ("var", "d", "int"), argnames[1]: ("var", "b", "float"),
               argnames[2]: ("var", "R", "int")})
    ret = straight_line(tail, env)
    if ret is None:
        raise Unsupported("kernel has no return expression")
    return ret, guards, argnames


class MemoRelaxed(Relaxed):
    """Shares the value of d-free subterms between evaluations (same float computation)."""

    def __init__(self, solver, tag, memo):
        super().__init__(solver, tag)
        self.memo = memo

    def v(self, ir, env):
        if isinstance(ir, tuple) and ir[0] not in ("const", "var") and "d" not in ir_vars(ir):
            key = repr(ir)
            if key not in self.memo:
                self.memo[key] = super().v(ir, env)
            return self.memo[key]
        return super().v(ir, env)


def _premises(s, d, n, R, b, db1, db2):
    s.add(d >= 0, d <= DMAX, n >= 1, n <= NMAX, R >= 1, R <= RMAX)
    s.add(db1 >= -fk.EPS, db1 <= fk.EPS, db2 >= -fk.EPS, db2 <= fk.EPS)
    s.add(b == (n / 1000) * (1 + db1) * (1 + db2))     # decoded tempo: at most two roundings from n/1000


def _mono(ir, pos):
    """Is `ir` a non-decreasing function of d under monotone rounding?  `pos(x)`: x>0 d-free proven."""
    if "d" not in ir_vars(ir):
        return True
    op = ir[0]
    if op == "var":
        return True
    if op == "i2f":
        return _mono(ir[1], pos)
    if op == "mul":
        a, b = ir[1], ir[2]
        if "d" in ir_vars(b):
            a, b = b, a
        return "d" not in ir_vars(b) and pos(b) and _mono(a, pos)
    if op == "div":
        a, b = ir[1], ir[2]
        return "d" not in ir_vars(b) and pos(b) and _mono(a, pos)
    if op == "add":
        return _mono(ir[1], pos) and _mono(ir[2], pos)
    return False


def kernel(timeout=60, **kw):
    import chartparse.chart  # noqa: F401
    rows, inc, samples = [], [], []
    try:
        ret, guards, argnames = _kernel_ir()
    except Unsupported as e:
        return _res(rows, inconclusive=["seconds kernel not encodable: %s" % e])
    if typ(ret) != "float":
        return _res(rows, inconclusive=["kernel returns %s" % typ(ret)])
    d, n, R, b, db1, db2 = z3.Reals("d n R b db1 db2")

    def query(name, build, want="unsat"):
        s = z3.Solver()
        s.set("timeout", int(timeout * 1000))
        _premises(s, d, n, R, b, db1, db2)
        build(s)
        t0 = time.time()
        r = str(s.check())
        rows.append({"name": name, "got": r, "want": want, "s": round(time.time() - t0, 3)})
        if r != want:
            (inc if r == "unknown" or want == "sat" else fails).append((name, r, s.model() if r == "sat" else None))
        return r, s

    fails: list = []
    exact = 60000 * d / (n * R)

    # premises satisfiable (vacuity) and no overflow/underflow of any rounded intermediate
    def prem(s):
        rx_ = Relaxed(s, "p")
        rx_.v(ret, {"d": d, "b": b, "R": R})
        s.add(exact <= SMAX, d >= 1)
    query("K:premises", prem, want="sat")

    def ranges(s):
        rx_ = Relaxed(s, "g")
        rx_.v(ret, {"d": d, "b": b, "R": R})
        s.add(exact <= SMAX, d >= 1)
        lo, hi = z3.Q(1, 2 ** 1000), z3.RealVal(2 ** 1000)
        s.add(z3.Or(*[z3.Or(z3.And(t < lo, t > -lo, t != 0), t > hi, t < -hi) for (_, t) in rx_.ops]))
    query("K:no-overflow-underflow", ranges)

    # K1 accuracy
    def k1(s):
        rx_ = Relaxed(s, "a")
        v = rx_.v(ret, {"d": d, "b": b, "R": R})
        s.add(exact <= SMAX)
        tol = exact * z3.Q(1, 2 ** 50)
        s.add(z3.Or(v - exact > tol, exact - v > tol))
    query("K1:|SEC-s|<=2^-50*s", k1)

    # K1 tightness witness: with 2^-53 the claim must fail (the bound is not vacuous / not trivial)
    def k1tight(s):
        rx_ = Relaxed(s, "t")
        v = rx_.v(ret, {"d": d, "b": b, "R": R})
        s.add(exact <= SMAX)
        tol = exact * z3.Q(1, 2 ** 53)
        s.add(z3.Or(v - exact > tol, exact - v > tol))
    query("K1:tightness(2^-53 refutable)", k1tight, want="sat")

    # K2 monotone: structure + positivity of the d-free factors + SEC(0)=0
    def pos(sub):
        ok = []

        def b_(s):
            rx_ = Relaxed(s, "m")
            v = rx_.v(sub, {"d": d, "b": b, "R": R})
            s.add(v <= 0)
        r, _ = query("K2:factor>0:%s" % repr(sub)[:40], b_)
        return r == "unsat"
    try:
        mono = _mono(ret, pos)
    except Unsupported:
        mono = False
    rows.append({"name": "K2:monotone-structure", "got": "unsat" if mono else "unknown", "s": 0.0, "nontrivial": mono})
    if not mono:
        inc.append("K2: kernel is not a composition of monotone rounded operations in `ticks`")

    def zero(s):
        rx_ = Relaxed(s, "z")
        v = rx_.v(ret, {"d": d, "b": b, "R": R})
        s.add(d == 0, v != 0)
    query("K2:SEC(0)=0", zero)

    # K3 strict step
    def k3(s):
        memo: dict = {}
        r1 = MemoRelaxed(s, "x", memo)
        v1 = r1.v(ret, {"d": d, "b": b, "R": R})
        d2 = z3.Real("d2")
        s.add(d2 == d + 1)
        r2 = MemoRelaxed(s, "y", memo)
        v2 = r2.v(ret, {"d": d2, "b": b, "R": R})
        s.add(60000 * d2 / (n * R) <= SMAX, n * R <= 3 * 10 ** 10)
        s.add(v2 - v1 < z3.Q(15, 10 ** 7))
    query("K3:SEC(d+1)-SEC(d)>=1.5e-6", k3)

    def k3prem(s):
        s.add(60000 * (d + 1) / (n * R) <= SMAX, n * R <= 3 * 10 ** 10, d >= 1)
    query("K3:premises", k3prem, want="sat")

    if fails:
        name, r, m = fails[0]
        vals = {}
        if m is not None:
            for vv in (d, n, R):
                try:
                    fr = m.eval(vv, model_completion=True).as_fraction()
                    vals[str(vv)] = int(fr)
                except Exception:  # noqa: BLE001
                    vals[str(vv)] = 1
        rep = KERNEL_REPLAY % (vals.get("d", 1), vals.get("n", 120000), vals.get("R", 192))
        return _res(rows, fail={"detail": "%s -> %s at %s" % (name, r, vals), "call": str(vals), "replay_src": rep})
    return _res(rows, inconclusive=[f"{a} -> {b_}" for (a, b_, _) in inc if isinstance(a, str)] if inc and isinstance(inc[0], tuple) else inc,
                samples=[{"kernel_ir": repr(ret)[:300]}])


KERNEL_REPLAY = '''#!/usr/bin/env python
# Replay of a kernel counterexample.  The axiomatised-rounding model over-approximates IEEE arithmetic, so
# its model is only a candidate: run the REAL kernel around the solver's values and over every
# thousandth of a BPM up to 300 BPM (plus a spread of larger ones) and compare with exact rationals.
import os, sys
from fractions import Fraction
REPO = os.environ.get("VERIF_REPO", "/repo"); sys.path.insert(0, REPO)
import chartparse.chart
import chartparse.tick as T
d0, n0, R0 = %d, %d, %d
bad = None
ds = sorted({max(d0, 0), d0 + 1, 1, 7, 192, 10**5})
ns = list(range(1, 300001)) + list(range(300001, 10**7, 9973)) + [max(n0, 1), 999999999]
Rs = sorted({max(R0, 1), 1, 192, 480})
for n in ns:
    b = n / 1000
    for R in Rs:
        for d in ds:
            s = Fraction(60000 * d, n * R)
            if s > 10**6:
                continue
            try:
                x = Fraction(T.seconds_from_ticks_at_bpm(d, b, R))
                x1 = Fraction(T.seconds_from_ticks_at_bpm(d + 1, b, R))
            except Exception as e:
                bad = (d, n, R, type(e).__name__, str(e)); break
            if abs(x - s) > s / 2**50 or x1 < x or (d == 0 and x != 0) or (n * R <= 3 * 10**10 and x1 - x < Fraction(15, 10**7)):
                bad = (d, n, R, float(x), float(s)); break
        if bad: break
    if bad: break
print("first deviation (ticks, BPM*1000, resolution, got, exact):", bad)
print("REPRODUCED" if bad else "NOT-REPRODUCED"); sys.exit(1 if bad else 0)
'''


# ------------------------------------------------------------------------------------------------
# glue lemmas (linear real arithmetic)
# ------------------------------------------------------------------------------------------------


def glue(timeout=30, **kw):
    rows, inc = [], []

    def q(name, cons, want="unsat"):
        s = z3.Solver()
        s.set("timeout", int(timeout * 1000))
        s.add(*cons)
        t0 = time.time()
        r = str(s.check())
        rows.append({"name": name, "got": r, "want": want, "s": round(time.time() - t0, 3)})
        if r != want:
            inc.append(f"{name} -> {r}")
    T, E, U, e, k, B = z3.Reals("T E U e k B")
    absd = lambda a, b: z3.If(a - b >= 0, a - b, b - a)  # noqa: E731
    # G1 error accumulation over segments
    q("G1", [k >= 0, B >= 0, absd(T, E) <= k * B, absd(U, e) <= B, absd(T + U, E + e) > (k + 1) * B])
    q("G1:premises", [k >= 0, B >= 0, absd(T, E) <= k * B, absd(U, e) <= B], "sat")
    # G2: kernel accuracy (K1) composed with the timedelta conversion contract (E1), in microseconds
    x, s_, Ui = z3.Reals("x s U2")
    e1 = z3.Q(1, 2) + z3.Q(1, 2 ** 30)
    q("G2", [s_ >= 0, s_ <= 10 ** 6, absd(x, s_) <= s_ * z3.Q(1, 2 ** 50), absd(Ui, 10 ** 6 * x) <= e1,
             absd(Ui, 10 ** 6 * s_) > z3.Q(501, 1000)])
    q("G2:premises", [s_ >= 0, s_ <= 10 ** 6, absd(x, s_) <= s_ * z3.Q(1, 2 ** 50), absd(Ui, 10 ** 6 * x) <= e1], "sat")
    # G3 strictness: a step of >= 1.5e-6 s survives microsecond rounding
    x1, x2 = z3.Reals("x1 x2")
    U1, U2 = z3.Ints("U1 U2")
    q("G3", [x2 - x1 >= z3.Q(15, 10 ** 7), absd(U1, 10 ** 6 * x1) <= e1, absd(U2, 10 ** 6 * x2) <= e1, U2 - U1 < 1])
    # G4 chain: monotone inside a segment + segment end = next event's stamp => monotone across
    a, bq, ta, tb, nxt = z3.Ints("ta_us tb_us stamp_i off_a off_b")
    # ticks a<=b in segments i<=j; time(a)=stamp_i+off_a, off_a<=len_i (monotone, last tick <= next stamp)
    si, sj, offa, offb, leni = z3.Ints("si sj offa offb leni")
    q("G4", [offa >= 0, offb >= 0, offa <= leni, si + leni <= sj, si + offa > sj + offb])
    return _res(rows, inconclusive=inc)
