"""IM engine (C20): import-time programs of the chartparse modules as a bounded model check.

From every chartparse/*.py AST the ordered list of import-time events is extracted:
  IMPORT t            `import chartparse.t`
  FROM t names        `from chartparse.t import a, b`
  USE t.name          attribute chain `chartparse.t.name` evaluated at import time
and the position (number of preceding events) of every top-level name definition.

Semantics (CPython import protocol, hand-written, trusted): a module is unloaded / loading / loaded;
IMPORT / FROM of an unloaded module runs its body (push); FROM on a *loading* module needs every name
defined already (else ImportError: circular import); USE needs the target module completely loaded
(the package attribute is bound only after the submodule finished) - else AttributeError.

Quantifier: one inductive step from an arbitrary dependency-closed set L of loaded modules and an
arbitrary next module M (symbolic); deterministic explicit-stack execution unrolled to a bound derived
from the programs.  sat => (L, M), replayed in a fresh interpreter.
"""
from __future__ import annotations

import ast
import os
import subprocess
import sys
import time

import z3

from . import REPO_DIR

PKG = "chartparse"


def _is_type_checking(test):
    s = ast.unparse(test)
    return s.endswith("TYPE_CHECKING")


class Extract(ast.NodeVisitor):
    def __init__(self, modname, future_annotations):
        self.events = []      # ("IMPORT", t) | ("FROM", t, [names]) | ("USE", t, name)
        self.defs = {}        # name -> last definition position (events before it)
        self.future = future_annotations

    # ---- definitions
    def _define(self, name):
        self.defs[name] = len(self.events)

    def _targets(self, t):
        if isinstance(t, ast.Name):
            self._define(t.id)
        elif isinstance(t, (ast.Tuple, ast.List)):
            for e in t.elts:
                self._targets(e)

    # ---- import-time expression evaluation: look for chartparse.<m>.<name> chains
    def _uses(self, node):
        if node is None:
            return
        for n in ast.walk(node):
            if isinstance(n, ast.Attribute) and isinstance(n.value, ast.Attribute) and \
                    isinstance(n.value.value, ast.Name) and n.value.value.id == PKG:
                self.events.append(("USE", n.value.attr, n.attr))
            elif isinstance(n, (ast.Lambda,)):
                pass

    def _expr_no_lambda_bodies(self, node):
        """Evaluate-at-import-time parts of an expression (lambda bodies run later)."""
        if node is None:
            return
        class V(ast.NodeVisitor):
            def __init__(s):
                s.out = []
            def visit_Lambda(s, n):
                for d in n.args.defaults + [x for x in n.args.kw_defaults if x is not None]:
                    s.visit(d)
            def visit_Attribute(s, n):
                if isinstance(n.value, ast.Attribute) and isinstance(n.value.value, ast.Name) and n.value.value.id == PKG:
                    s.out.append(("USE", n.value.attr, n.attr))
                s.generic_visit(n)
        v = V()
        v.visit(node)
        self.events.extend(v.out)

    def body(self, stmts, toplevel=True):
        for st in stmts:
            self.stmt(st, toplevel)

    def stmt(self, st, toplevel):
        if isinstance(st, ast.Import):
            for a in st.names:
                if a.name.startswith(PKG + "."):
                    self.events.append(("IMPORT", a.name.split(".")[1]))
                if toplevel:
                    self._define((a.asname or a.name).split(".")[0])
        elif isinstance(st, ast.ImportFrom):
            if st.module and st.module.startswith(PKG + ".") and st.level == 0:
                self.events.append(("FROM", st.module.split(".")[1], [a.name for a in st.names]))
            elif st.module == PKG and st.level == 0:
                for a in st.names:
                    self.events.append(("IMPORT", a.name))
            if toplevel:
                for a in st.names:
                    self._define(a.asname or a.name)
        elif isinstance(st, (ast.FunctionDef, ast.AsyncFunctionDef)):
            for d in st.decorator_list:
                self._expr_no_lambda_bodies(d)
            for d in st.args.defaults + [x for x in st.args.kw_defaults if x is not None]:
                self._expr_no_lambda_bodies(d)
            if not self.future:
                for a in st.args.args + st.args.kwonlyargs + st.args.posonlyargs:
                    self._expr_no_lambda_bodies(a.annotation)
                self._expr_no_lambda_bodies(st.returns)
            if toplevel:
                self._define(st.name)
        elif isinstance(st, ast.ClassDef):
            for d in st.decorator_list + st.bases + [k.value for k in st.keywords]:
                self._expr_no_lambda_bodies(d)
            self.body(st.body, toplevel=False)
            if toplevel:
                self._define(st.name)
        elif isinstance(st, ast.Assign):
            self._expr_no_lambda_bodies(st.value)
            if toplevel:
                for t in st.targets:
                    self._targets(t)
        elif isinstance(st, ast.AnnAssign):
            self._expr_no_lambda_bodies(st.value)
            if not self.future:
                self._expr_no_lambda_bodies(st.annotation)
            if toplevel and st.value is not None:
                self._targets(st.target)
        elif isinstance(st, ast.AugAssign):
            self._expr_no_lambda_bodies(st.value)
        elif isinstance(st, ast.If):
            if _is_type_checking(st.test):
                self.body(st.orelse, toplevel)
            else:
                self._expr_no_lambda_bodies(st.test)
                self.body(st.body, toplevel)
                self.body(st.orelse, toplevel)
        elif isinstance(st, ast.Try) and any(
                h.type is None or any(n in ast.unparse(h.type) for n in ("ImportError", "Exception", "BaseException", "ModuleNotFoundError"))
                for h in st.handlers):
            # try: <imports> except ImportError: ...  - a failing import inside does not propagate; the
            # rest of the try body is skipped and the names stay unbound (order-dependent binding)
            start = len(self.events)
            self.body(st.body, toplevel)
            end = len(self.events)
            for k in range(start, end):
                self.events[k] = self.events[k] + ({"guard_end": end},)
            for h in st.handlers:
                self.body(h.body, toplevel)
            self.body(st.orelse, toplevel)
            self.body(st.finalbody, toplevel)
        elif isinstance(st, (ast.For, ast.While, ast.With, ast.Try)):
            for f in ("iter", "test"):
                self._expr_no_lambda_bodies(getattr(st, f, None))
            for f in ("body", "orelse", "finalbody"):
                self.body(getattr(st, f, []) or [], toplevel)
            for h in getattr(st, "handlers", []) or []:
                self.body(h.body, toplevel)
        elif isinstance(st, ast.Expr):
            self._expr_no_lambda_bodies(st.value)
        elif isinstance(st, (ast.Pass, ast.Global, ast.Nonlocal, ast.Delete, ast.Return, ast.Raise, ast.Assert)):
            pass
        else:
            self._expr_no_lambda_bodies(st)


def guard_end(e):
    """Index of the first event after the enclosing guarded try body, or None."""
    last = e[-1]
    return last["guard_end"] if isinstance(last, dict) else None


def programs(repo=REPO_DIR):
    d = os.path.join(repo, PKG)
    mods = sorted(f[:-3] for f in os.listdir(d) if f.endswith(".py") and f != "__init__.py")
    progs = {}
    for m in mods:
        src = open(os.path.join(d, m + ".py")).read()
        tree = ast.parse(src)
        future = any(isinstance(s, ast.ImportFrom) and s.module == "__future__" and
                     any(a.name == "annotations" for a in s.names) for s in tree.body)
        ex = Extract(m, future)
        ex.body(tree.body)
        progs[m] = {"events": ex.events, "defs": ex.defs}
    # drop events that refer to non-modules of the package (e.g. `from chartparse.x import` of a missing module)
    return mods, progs


# ------------------------------------------------------------------------------------------------
# concrete interpreter of the model (used to validate the encoding against real interpreters)
# ------------------------------------------------------------------------------------------------


def simulate(mods, progs, loaded, first):
    status = {m: (2 if m in loaded else 0) for m in mods}
    pc = {m: 0 for m in mods}
    stack = [first]
    status[first] = 1
    steps = 0
    skipped = []
    while stack:
        steps += 1
        m = stack[-1]
        evs = progs[m]["events"]
        if pc[m] >= len(evs):
            status[m] = 2
            stack.pop()
            if stack:
                pc[stack[-1]] += 1
            continue
        e = evs[pc[m]]
        t = e[1]
        ge = guard_end(e)
        problem = None
        if t not in status:
            problem = "unknown module %s" % t
        elif e[0] == "IMPORT":
            if status[t] == 0:
                status[t] = 1
                stack.append(t)
                continue
        elif e[0] == "FROM":
            if status[t] == 0:
                status[t] = 1
                stack.append(t)
                continue
            elif status[t] == 1:
                for nm in e[2]:
                    if nm not in progs[t]["defs"] or progs[t]["defs"][nm] > pc[t]:
                        problem = "%s: cannot import name %s from partially initialised %s" % (m, nm, t)
            else:
                for nm in e[2]:
                    if nm not in progs[t]["defs"] and nm not in mods:
                        problem = "%s: no name %s in %s" % (m, nm, t)
        else:  # USE
            if status[t] != 2:
                problem = "%s: chartparse.%s.%s used while %s is not loaded" % (m, t, e[2], t)
        if problem is None:
            pc[m] += 1
        elif ge is not None:
            skipped.append(problem)
            pc[m] = ge
        else:
            return ("fail", problem, steps)
    if skipped:
        return ("namediff", "; ".join(skipped), steps)
    return ("ok", "", steps)


# ------------------------------------------------------------------------------------------------
# z3 encoding
# ------------------------------------------------------------------------------------------------


def encode(mods, progs):
    n = len(mods)
    idx = {m: i for i, m in enumerate(mods)}
    nev = [len(progs[m]["events"]) for m in mods]
    T = sum(nev) + 3 * n + 2
    BW = 8
    B = lambda v: z3.BitVecVal(v, BW)  # noqa: E731
    # static event table: kind (0 END,1 IMPORT,2 FROM,3 USE), target, need (max def position of names,
    # 255 if a name is never defined), static_missing (FROM of a loaded module: name absent)
    table = {}
    gend = {}
    for m in mods:
        for p, e in enumerate(progs[m]["events"]):
            t = e[1]
            ge = guard_end(e)
            gend[(idx[m], p)] = 255 if ge is None else ge
            if t not in idx:
                table[(idx[m], p)] = (4, 0, 0)          # refers to a missing module: always fails
                continue
            if e[0] == "IMPORT":
                table[(idx[m], p)] = (1, idx[t], 0)
            elif e[0] == "FROM":
                need = 0
                for nm in e[2]:
                    dp = progs[t]["defs"].get(nm)
                    if dp is None:
                        need = 255 if nm not in idx else need
                    else:
                        need = max(need, dp)
                table[(idx[m], p)] = (2, idx[t], need)
            else:
                table[(idx[m], p)] = (3, idx[t], 0)
    s = z3.Solver()
    st = [[z3.BitVec("st_%d_%d" % (k, i), 2) for i in range(n)] for k in range(T + 1)]
    pc = [[z3.BitVec("pc_%d_%d" % (k, i), BW) for i in range(n)] for k in range(T + 1)]
    stack = [[z3.BitVec("sk_%d_%d" % (k, j), BW) for j in range(n)] for k in range(T + 1)]
    sp = [z3.BitVec("sp_%d" % k, BW) for k in range(T + 1)]
    failed = [z3.Bool("failed_%d" % k) for k in range(T + 1)]
    skipped = [z3.Bool("skipped_%d" % k) for k in range(T + 1)]
    M = z3.BitVec("M", BW)
    # pre-state: L arbitrary dependency-closed, nothing loading; client imports M (unloaded)
    deps = {i: sorted({idx[e[1]] for e in progs[m]["events"] if e[0] in ("IMPORT", "FROM") and e[1] in idx})
            for m, i in idx.items()}
    L = [z3.Bool("L_%s" % m) for m in mods]
    for i in range(n):
        for j in deps[i]:
            s.add(z3.Implies(L[i], L[j]))
    s.add(z3.ULT(M, B(n)))
    for i in range(n):
        s.add(z3.Implies(M == B(i), z3.Not(L[i])))
        s.add(st[0][i] == z3.If(M == B(i), z3.BitVecVal(1, 2), z3.If(L[i], z3.BitVecVal(2, 2), z3.BitVecVal(0, 2))))
        s.add(pc[0][i] == B(0))
        s.add(stack[0][i] == (M if i == 0 else B(0)))
    s.add(sp[0] == B(1), z3.Not(failed[0]), z3.Not(skipped[0]))

    def sel(vec, i_term):
        r = vec[0]
        for i in range(1, len(vec)):
            r = z3.If(i_term == B(i), vec[i], r)
        return r

    for k in range(T):
        top = sel(stack[k], sp[k] - B(1))
        idle = z3.Or(sp[k] == B(0), failed[k])
        cur_pc = sel(pc[k], top)
        # table lookup
        kind, tgt, need, gde = B(0), B(0), B(0), B(255)
        for (mi, p), (kd, tg, nd) in table.items():
            c = z3.And(top == B(mi), cur_pc == B(p))
            kind = z3.If(c, B(kd), kind)
            tgt = z3.If(c, B(tg), tgt)
            need = z3.If(c, B(nd), need)
            gde = z3.If(c, B(gend[(mi, p)]), gde)
        st_t = sel(st[k], tgt)
        pc_t = sel(pc[k], tgt)
        is_end = kind == B(0)
        is_imp = kind == B(1)
        is_from = kind == B(2)
        is_use = kind == B(3)
        is_bad = kind == B(4)
        push = z3.And(z3.Or(is_imp, is_from), st_t == z3.BitVecVal(0, 2))
        problem = z3.Or(
            is_bad,
            z3.And(is_from, st_t == z3.BitVecVal(1, 2), z3.UGT(need, pc_t)),
            z3.And(is_from, st_t == z3.BitVecVal(2, 2), need == B(255)),
            z3.And(is_use, st_t != z3.BitVecVal(2, 2)),
        )
        guarded = gde != B(255)
        fail_now = z3.And(problem, z3.Not(guarded))
        skip_now = z3.And(problem, guarded)            # caught by `except ImportError`: jump past the try body
        advance = z3.And(z3.Not(is_end), z3.Not(push), z3.Not(problem))
        parent = sel(stack[k], sp[k] - B(2))
        s.add(failed[k + 1] == z3.Or(failed[k], z3.And(z3.Not(idle), fail_now)))
        s.add(skipped[k + 1] == z3.Or(skipped[k], z3.And(z3.Not(idle), skip_now)))
        s.add(sp[k + 1] == z3.If(idle, sp[k], z3.If(is_end, sp[k] - B(1), z3.If(push, sp[k] + B(1), sp[k]))))
        for i in range(n):
            bi = B(i)
            new_st = z3.If(z3.And(is_end, top == bi), z3.BitVecVal(2, 2),
                           z3.If(z3.And(push, tgt == bi), z3.BitVecVal(1, 2), st[k][i]))
            s.add(st[k + 1][i] == z3.If(idle, st[k][i], new_st))
            new_pc = z3.If(z3.And(skip_now, top == bi), gde,
                     z3.If(z3.And(advance, top == bi), pc[k][i] + B(1),
                           z3.If(z3.And(is_end, z3.UGE(sp[k], B(2)), parent == bi), pc[k][i] + B(1),
                                 z3.If(z3.And(push, tgt == bi), B(0), pc[k][i]))))
            s.add(pc[k + 1][i] == z3.If(idle, pc[k][i], new_pc))
            new_sk = z3.If(z3.And(push, sp[k] == bi), tgt, stack[k][i])
            s.add(stack[k + 1][i] == z3.If(idle, stack[k][i], new_sk))
    # post-state closed under dependencies
    closed = z3.And(*[z3.Implies(st[T][i] == z3.BitVecVal(2, 2), z3.And(*[st[T][j] == z3.BitVecVal(2, 2) for j in deps[i]]))
                      for i in range(n)] + [sel(st[T], M) == z3.BitVecVal(2, 2)])
    viol = z3.Or(failed[T], skipped[T], sp[T] != B(0), z3.Not(closed))
    return s, viol, L, M, T


REPLAY = '''#!/usr/bin/env python
# Replay C20: in fresh interpreters run (A) the solver's order - members of L in dependency order, then
# M, then every remaining module - and (B) the reference order (chartparse.chart first, then the rest);
# the violation reproduces if A fails or binds a different set of public names than B.
import json, os, subprocess, sys
REPO = os.environ.get("VERIF_REPO", "/repo")
order = %r
mods = %r
PROG = """
import importlib, json, sys
order = json.loads(sys.argv[1])
for m in order:
    importlib.import_module("chartparse." + m)
out = {}
for m in sorted(set(order)):
    mod = sys.modules["chartparse." + m]
    out[m] = sorted((k, type(v).__name__, getattr(v, "__module__", None) or "", getattr(v, "__qualname__", None) or "")
                    for k, v in vars(mod).items() if not k.startswith("_"))
print("NAMES " + json.dumps(out))
"""
def run(o):
    full = list(o) + [m for m in mods if m not in o]
    p = subprocess.run([sys.executable, "-c", PROG, json.dumps(full)], cwd="/", capture_output=True, text=True,
                       env={"PYTHONPATH": REPO, "PATH": os.environ.get("PATH", "")})
    names = None
    for ln in p.stdout.splitlines():
        if ln.startswith("NAMES "):
            names = json.loads(ln[6:])
    return p.returncode, names, (p.stderr.strip().splitlines() or [""])[-1]
rcA, namesA, errA = run(order)
rcB, namesB, errB = run(["chart"])
print("order A:", order, "-> exit", rcA, errA)
print("order B: chart first -> exit", rcB, errB)
bad = rcA != 0 or rcB != 0
if not bad and namesA != namesB:
    bad = True
    for m in namesA:
        a, b = set(map(tuple, namesA[m])), set(map(tuple, namesB.get(m, [])))
        if a != b:
            print("module", m, "binds different public names:", sorted(a ^ b)[:8])
print("REPRODUCED" if bad else "NOT-REPRODUCED"); sys.exit(1 if bad else 0)
'''


def fresh_import(order, repo=REPO_DIR):
    prog = "; ".join("import %s.%s" % (PKG, m) for m in order)
    p = subprocess.run([sys.executable, "-c", prog], cwd="/", capture_output=True, text=True,
                       env={"PYTHONPATH": repo, "PATH": os.environ.get("PATH", "")})
    return p.returncode == 0, prog, (p.stderr.strip().splitlines() or [""])[-1]


def dep_order(mods, progs, L):
    """Members of L in an order in which each import succeeds if the property holds (deps first)."""
    out, seen = [], set()

    def visit(m):
        if m in seen:
            return
        seen.add(m)
        for e in progs[m]["events"]:
            if e[0] in ("IMPORT", "FROM") and e[1] in L:
                visit(e[1])
        out.append(m)
    for m in sorted(L):
        visit(m)
    return out


def check(timeout=300, **kw):
    mods, progs = programs()
    rows, inc, samples = [], [], []
    validated = 0
    # model validation: single first-imports, model vs fresh interpreters (validates the encoding)
    disagreements = []
    for m in mods:
        sim = simulate(mods, progs, set(), m)
        ok, prog, err = fresh_import([m])
        validated += 1
        if (sim[0] in ("ok", "namediff")) != ok:
            disagreements.append((m, sim, err))
    s, viol, L, M, T = encode(mods, progs)
    s.set("timeout", int(timeout * 1000))
    t0 = time.time()
    s.push()
    s.add(viol)
    r = str(s.check())
    dt = time.time() - t0
    rows.append({"name": "IM:inductive-step(all closed L, all M), T=%d" % T, "got": r, "s": round(dt, 2)})
    res = {"queries": 1 + validated, "solver_s": round(dt, 2), "validated": validated, "nontrivial": 1 + validated,
           "samples": [{"modules": mods, "events": {m: len(progs[m]["events"]) for m in mods}, "unroll": T}]}
    if r == "sat":
        mdl = s.model()
        Lset = [m for m, b in zip(mods, L) if z3.is_true(mdl.eval(b, model_completion=True))]
        Mi = mdl.eval(M, model_completion=True).as_long()
        order = dep_order(mods, progs, set(Lset)) + [mods[Mi]]
        prog = "; ".join("import %s.%s" % (PKG, m) for m in order)
        sim = simulate(mods, progs, set(Lset), mods[Mi])
        res.update(verdict="candidate", detail="L=%s then import %s: model says %s" % (Lset, mods[Mi], sim[:2]),
                   call=prog, replay_src=REPLAY % (order, mods))
        return res
    s.pop()
    # vacuity: the premises (some closed L and unloaded M, run to completion) are satisfiable
    t0 = time.time()
    r2 = str(s.check())
    rows.append({"name": "IM:premises", "got": r2, "s": round(time.time() - t0, 2)})
    res["queries"] = 2 + validated
    res["nontrivial"] = 2 + validated
    res["solver_s"] = round(res["solver_s"] + time.time() - t0, 2)
    res["query_log"] = rows
    if disagreements:
        inc.append("model/interpreter disagreement on first-imports: %r" % (disagreements[:2],))
    if r != "unsat":
        inc.append("inductive step -> " + r)
    if r2 != "sat":
        inc.append("premises -> " + r2)
    if inc:
        res.update(verdict="inconclusive", detail="; ".join(inc)[:800])
    else:
        res.update(verdict="holds", detail="unsat for every dependency-closed loaded-set and every next module (T=%d steps)" % T)
    return res
