# CrossHair plugin (exec'd by `crosshair --extra_plugin` or by vf.ch_worker).
# Stub S1 of DESIGN.md: formatting a symbolic / abstract value yields a placeholder instead of
# realising it.  Contract assumed: format()/str() of int, float, str, timedelta never raises and
# has no side effect.
def _vf_install_format_stub():
    import crosshair.libimpl.builtinslib as B
    import crosshair.core as C
    from crosshair.core import NoTracing

    if getattr(B, "_vf_format_installed", False):
        return
    _orig = B._format

    def _format(obj, format_spec=""):
        with NoTracing():
            t = type(obj)
            if t.__module__.startswith("crosshair") or getattr(t, "_vf_abstract", False):
                return "<sym>"
        return _orig(obj, format_spec)

    C._PATCH_REGISTRATIONS[format] = _format
    B._format = _format
    B._vf_format_installed = True


_vf_install_format_stub()
