# CrossHair plugin (exec'd by `crosshair --extra_plugin` or by vf.ch_worker).
# Stub S1 of DESIGN.md: formatting a symbolic / abstract value yields a placeholder instead of
# realising it; formatting any other non-primitive object runs its own __format__/__str__ under
# tracing (CrossHair's default would deep-realise every symbolic attribute of the object first).
# Contract assumed: format()/str() of int, float, str, timedelta never raises and has no side effect.
def _vf_install_format_stub():
    import crosshair.libimpl.builtinslib as B
    import crosshair.core as C
    from crosshair.core import NoTracing

    if getattr(B, "_vf_format_installed", False):
        return
    _orig = B._format
    _plain = (int, float, str, bool, bytes, type(None), complex)

    def _format(obj, format_spec=""):
        with NoTracing():
            t = type(obj)
            symbolic = t.__module__.startswith("crosshair") or getattr(t, "_vf_abstract", False)
            plain = t in _plain
        if symbolic:
            return "<sym>"
        if plain:
            return _orig(obj, format_spec)
        with NoTracing():
            fmt = getattr(t, "__format__", None)
        if fmt is object.__format__ and format_spec == "":
            return str(obj)
        return fmt(obj, format_spec)

    C._PATCH_REGISTRATIONS[format] = _format
    B._format = _format

    # int() of an abstract digit token (vf.tok.Digits) is the token's (symbolic) value.  The rest of
    # the body is CrossHair 0.0.110's own `_int` (a wrapper would recurse: calls to `int` are only
    # left unpatched when made from the registered patch's own code object).
    from crosshair.core import ResumedTracing, realize, deep_realize
    from crosshair.libimpl.builtinslib import SymbolicInt, AnySymbolicStr, CrossHairValue, name_of_type
    _MISSING = B._MISSING
    _ORD_OF_ZERO = ord("0")

    def _int(val=0, base=_MISSING):
        with NoTracing():
            if getattr(type(val), "_vf_digits", False):
                return val.value
            if isinstance(val, SymbolicInt):
                if base is not _MISSING:
                    raise TypeError("int() can't convert non-string with explicit base")
                return val
            if isinstance(val, AnySymbolicStr):
                with ResumedTracing():
                    if base is _MISSING:
                        base = 10
                    elif not hasattr(base, "__index__"):
                        raise TypeError(
                            f"{name_of_type(type(base))} object cannot be interpreted as an integer"
                        )
                    if any([base < 2, base > 10, not val]):
                        return int(realize(val), base=realize(base))
                    ret = 0
                    for ch in val:
                        ch_num = ord(ch) - _ORD_OF_ZERO
                        if any((ch_num < 0, ch_num >= base)):
                            return int(realize(val))
                        else:
                            ret = (ret * base) + ch_num
                    return ret
            elif isinstance(val, CrossHairValue):
                val = deep_realize(val)
                base = deep_realize(base)
        return int(val) if base is _MISSING else int(val, base=base)

    # str()/repr() of builtin containers: render the elements under tracing instead of letting the C
    # implementation realise every symbolic element (which makes the path tree infinite)
    from crosshair.libimpl.builtinslib import invoke_dunder

    def _vf_container(obj, depth=0):
        with NoTracing():
            t = type(obj)
            if t.__module__.startswith("crosshair") and not isinstance(obj, AnySymbolicStr):
                return "<sym>"
            if getattr(t, "_vf_abstract", False):
                return "<sym>"
            is_dict = isinstance(obj, dict)
            is_seq = isinstance(obj, (list, tuple)) and not hasattr(t, "_fields")
        if depth > 6:
            return "<deep>"
        if is_dict:
            return "{" + ", ".join([_repr(k) + ": " + _repr(v) for k, v in obj.items()]) + "}"
        if is_seq:
            return "[" + ", ".join([_repr(x) for x in obj]) + "]"
        return None

    def _repr(obj):
        r = _vf_container(obj)
        if r is not None:
            return r
        return invoke_dunder(obj, "__repr__")

    def _str(*a):
        if len(a) == 1:
            with NoTracing():
                symstr = isinstance(a[0], AnySymbolicStr)
            if symstr:
                return a[0]
            r = _vf_container(a[0])
            if r is not None:
                return r
            return invoke_dunder(a[0], "__str__")
        return str(*a)

    C._PATCH_REGISTRATIONS[repr] = _repr
    C._PATCH_REGISTRATIONS[str] = _str
    B._repr = _repr
    B._str = _str
    C._PATCH_REGISTRATIONS[int] = _int
    B._int = _int

    # CrossHair 0.0.110 models list.index(value, start, stop) by slicing and returns the position
    # *within the slice* (off by `start`) - code searching a list from an offset then loops for ever or
    # goes wrong under tracing although it is right in the interpreter.  Replaced by the documented
    # semantics (same comparisons, absolute positions).
    import sys as _sys

    def _list_index(self, value, start=0, stop=_sys.maxsize):
        with NoTracing():
            if not isinstance(self, list):
                raise TypeError
            n = list.__len__(self)
        if start < 0:
            start = start + n
            if start < 0:
                start = 0
        if stop < 0:
            stop = stop + n
            if stop < 0:
                stop = 0
        i = start
        while i < n and i < stop:
            item = self[i]
            if item is value or item == value:
                return i
            i += 1
        raise ValueError("%r is not in list" % (value,))

    C._PATCH_REGISTRATIONS[list.index] = _list_index
    B._list_index = _list_index
    B._vf_format_installed = True


_vf_install_format_stub()
