"""Run one solver-script obligation: python -m vf.py_worker <module> <fn> <json-args> <timeout>.

The function returns a dict with at least `verdict` (holds | candidate | inconclusive | error).
"""
from __future__ import annotations

import importlib
import json
import sys
import time
import traceback


def main(argv):
    modname, fnname, args, timeout = argv[0], argv[1], json.loads(argv[2]), float(argv[3])
    out = {"engine": "PY", "module": modname, "fn": fnname, "timeout": timeout}
    t0 = time.time()
    try:
        mod = importlib.import_module(modname)
        res = getattr(mod, fnname)(timeout=timeout, **args)
        out.update(res)
    except BaseException as e:  # noqa: BLE001 - worker boundary
        # code shapes the encoders do not support are inconclusive, never a pass and never an alarm
        out["verdict"] = "inconclusive" if type(e).__name__ == "Unsupported" else "error"
        out["detail"] = "".join(traceback.format_exception(e))[-3000:]
    out["wall_s"] = round(time.time() - t0, 2)
    print("RESULT " + json.dumps(out, default=str))
    return 0


if __name__ == "__main__":
    sys.exit(main(sys.argv[1:]))
