"""RX obligations per property: SPEC languages (verifier's reading of the statements) against the
live recognisers of chartparse.  Every function returns the dict expected by vf.py_worker."""
from __future__ import annotations

import json
import os
import re
import sys

import z3

from . import REPO_DIR, rx, rx_capture
from .rx import BL, DIG, Q, cat, cs_neg, cs_to_re, cs_union, lit, plus, star
from .rx_capture import Seg

if REPO_DIR not in sys.path:
    sys.path.insert(0, REPO_DIR)

WS_CS = rx._category_cached(r"\s")
UD_CS = rx._category_cached(r"\d")
NONWS_CS = cs_neg(WS_CS)
DOT_CS = rx.DOT_CS
NL_OPT = z3.Option(lit("\n"))


def _live():
    import chartparse.chart  # noqa: F401  (first, C20)
    import chartparse.globalevents as G
    import chartparse.instrument as I
    import chartparse.metadata as M
    import chartparse.sync as S
    return {
        "N": (I.NoteEvent.ParsedData._regex, "chartparse.instrument.NoteEvent.ParsedData"),
        "S": (I.StarPowerEvent.ParsedData._regex, "chartparse.instrument.StarPowerEvent.ParsedData"),
        "E": (I.TrackEvent.ParsedData._regex, "chartparse.instrument.TrackEvent.ParsedData"),
        "B": (S.BPMEvent.ParsedData._regex, "chartparse.sync.BPMEvent.ParsedData"),
        "TS": (S.TimeSignatureEvent.ParsedData._regex, "chartparse.sync.TimeSignatureEvent.ParsedData"),
        "A": (S.AnchorEvent.ParsedData._regex, "chartparse.sync.AnchorEvent.ParsedData"),
        "LYR": (G.LyricEvent.ParsedData._regex, "chartparse.globalevents.LyricEvent.ParsedData"),
        "SEC": (G.SectionEvent.ParsedData._regex, "chartparse.globalevents.SectionEvent.ParsedData"),
        "TXT": (G.TextEvent.ParsedData._regex, "chartparse.globalevents.TextEvent.ParsedData"),
    }


MODES: dict = {}     # live pattern string -> re method its from_chart_line applies


def tr(pattern):
    """Translate a live pattern under the match mode of its recogniser."""
    rx.set_mode(MODES.get(pattern, "match"))
    try:
        return rx.pattern_to_re(pattern)
    finally:
        rx.set_mode("match")


def _check_compiled(kinds):
    """The compiled program used by from_chart_line must be compiled from the pattern we translate,
    and all recognisers of the family must apply it with the same re method (sets rx.MODE)."""
    import importlib
    bad = []
    modes = set()
    for k, (pat, path) in kinds.items():
        modname, _, rest = path.partition(".ParsedData")
        parts = path.split(".")
        mod = importlib.import_module(".".join(parts[:2]))
        obj = mod
        for p in parts[2:]:
            obj = getattr(obj, p)
        prog = obj._regex_prog
        if prog.pattern != pat or (prog.flags & ~re.UNICODE):
            bad.append(k)
        try:
            MODES[pat] = rx.call_mode(obj.from_chart_line.__func__)
        except rx.Unsupported:
            # the method call is not in from_chart_line itself (e.g. moved into a helper): observe it
            m = _observed_mode(obj)
            if m is None:
                bad.append(k + ":mode")
            else:
                MODES[pat] = m
    return bad


def _observed_mode(cls):
    """Which re method from_chart_line applies to cls._regex_prog, observed on a probe call through a
    recording proxy of the compiled pattern (used when the live AST does not show it)."""
    real = cls._regex_prog
    seen = []

    class Spy:
        pattern, flags, groups = real.pattern, real.flags, real.groups

        def __getattr__(self, name):
            if name in ("match", "search", "fullmatch", "findall", "finditer", "split", "sub"):
                seen.append(name)
            return getattr(real, name)
    try:
        cls._regex_prog = Spy()
        for probe in ("probe line", "  0 = N 0 0", "  0 = B 1", '  0 = E "x"'):
            try:
                cls.from_chart_line(probe)
            except Exception:  # noqa: BLE001 - only the recorded method matters
                pass
    finally:
        cls._regex_prog = real
    kinds = set(seen)
    if len(kinds) == 1 and seen[0] in ("match", "search", "fullmatch"):
        return seen[0]
    return None


# ------------------------------------------------------------------------------------------------
# helpers
# ------------------------------------------------------------------------------------------------


def seg(r, group=0, name=""):
    return Seg(r, group, "", name)


def line_segs(key_lit, *value_segs, trailing_blanks=True):
    """BL* <tick digits> <key literal> <values...> BL*  with group 1 = tick."""
    out = [seg(BL, name="lead"), seg(DIG, 1, "tick"), seg(lit(key_lit), name="key")]
    out += list(value_segs)
    if trailing_blanks:
        out.append(seg(BL, name="trail"))
    return out


def whole(segs):
    return cat(*[s.re for s in segs])


def up_line(key_lit, *vals, trailing=True):
    parts = [star(WS_CS), plus(UD_CS), lit(key_lit)] + list(vals)
    if trailing:
        parts.append(star(WS_CS))
    parts.append(NL_OPT)
    return cat(*parts)


class Run:
    def __init__(self, timeout):
        self.q = Q(timeout_s=min(timeout, 120))
        self.fail = []          # (name, detail, replay dict)
        self.inconclusive = []
        self.samples = []
        self.validated = 0

    def expect_unsat(self, name, constraints, var, on_sat):
        row = self.q.check(name, constraints, "unsat", [var])
        if row["got"] == "sat":
            s = rx.z3_unescape(row["model"][str(var)])
            self.fail.append((name, s, on_sat(s)))
        elif row["got"] != "unsat":
            self.inconclusive.append(name + " -> " + row["got"])
        return row

    def witness(self, name, r, pattern=None, want_match=True):
        """Vacuity witness + translator validation: a solver-chosen member goes through real re."""
        w = z3.String("w")
        row = self.q.check("witness:" + name, [z3.InRe(w, r)], "sat", [w])
        if row["got"] != "sat":
            self.inconclusive.append("witness:%s -> %s (premise may be vacuous)" % (name, row["got"]))
            return None
        s = rx.z3_unescape(row["model"]["w"])
        self.samples.append({name: s})
        if pattern is not None:
            real = re.compile(pattern).match(s) is not None
            self.validated += 1
            if real != want_match:
                self.inconclusive.append("translator disagreement on %r for %s" % (s, name))
        return s

    def finish(self, extra_detail=""):
        rows = self.q.rows
        if os.environ.get("VF_RX_DUMP"):
            for r in rows:
                print("  Q", r["name"], r["want"], r["got"], r["s"], (r["model"] or ""), file=sys.stderr)
        res = {
            "queries": len(rows),
            "nontrivial": sum(1 for r in rows if r["got"] == "sat" and r["want"] == "sat") +
            sum(1 for r in rows if r["got"] == "unsat"),
            "solver_s": round(self.q.solver_s, 2),
            "samples": self.samples[:12],
            "validated": self.validated,
        }
        if self.fail:
            name, s, rep = self.fail[0]
            res.update(verdict="candidate", detail=f"{name}: {s!r}", call=repr(s), replay_src=rep)
        elif self.inconclusive:
            res.update(verdict="inconclusive", detail="; ".join(self.inconclusive)[:600])
        else:
            res.update(verdict="holds", detail=f"{len(rows)} queries as expected. {extra_detail}")
        return res


REPLAY_HEAD = '''#!/usr/bin/env python
# Replay of an RX counterexample against the real recogniser(s).  Exit 1 = reproduces.
import os, sys, re, importlib
REPO = os.environ.get("VERIF_REPO", "/repo")
sys.path.insert(0, REPO)
import chartparse.chart
from chartparse.exceptions import RegexNotMatchError
def cls_of(path):
    parts = path.split(".")
    obj = importlib.import_module(".".join(parts[:2]))
    for p in parts[2:]:
        obj = getattr(obj, p)
    return obj
def accepts(path, line):
    try:
        return cls_of(path).from_chart_line(line)
    except RegexNotMatchError:
        return None
'''


def replay_must_accept(path, line, fields=None):
    return REPLAY_HEAD + f'''
line = {line!r}
d = accepts({path!r}, line)
print("line", repr(line), "->", d)
if d is None:
    print("REPRODUCED: a SPEC line is rejected"); sys.exit(1)
want = {fields!r}
if want:
    for k, v in want.items():
        if getattr(d, k) != v:
            print("REPRODUCED: field", k, "is", repr(getattr(d, k)), "want", repr(v)); sys.exit(1)
print("NOT-REPRODUCED"); sys.exit(0)
'''


def replay_must_reject(paths, line, why):
    return REPLAY_HEAD + f'''
line = {line!r}
hits = [p for p in {paths!r} if accepts(p, line) is not None]
print("line", repr(line), "accepted by", hits, "::", {why!r})
if len(hits) >= {1 if len(paths) == 1 else 2}:
    print("REPRODUCED"); sys.exit(1)
print("NOT-REPRODUCED"); sys.exit(0)
'''


FIELD_MAP = {   # capture group number -> (decoded attribute, converter) per recogniser class suffix
    "NoteEvent.ParsedData": {1: ("tick", "int"), 2: ("note_track_index.value", "int"), 3: ("sustain", "int")},
    "StarPowerEvent.ParsedData": {1: ("tick", "int"), 2: ("sustain", "int")},
    "TrackEvent.ParsedData": {1: ("tick", "int"), 2: ("value", "str")},
    "BPMEvent.ParsedData": {1: ("tick", "int"), 2: ("raw_bpm", "str")},
    "TimeSignatureEvent.ParsedData": {1: ("tick", "int"), 2: ("upper", "int"), 3: ("lower", "int")},
    "AnchorEvent.ParsedData": {1: ("tick", "int"), 2: ("microseconds", "int")},
    "LyricEvent.ParsedData": {1: ("tick", "int"), 2: ("value", "str")},
    "SectionEvent.ParsedData": {1: ("tick", "int"), 2: ("value", "str")},
    "TextEvent.ParsedData": {1: ("tick", "int"), 2: ("value", "str")},
}


def replay_groups(pattern_path, attr, line, want_groups):
    """Semantic replay of a capture candidate: the datum *decoded* by the real from_chart_line must carry
    the SPEC values (the raw groups are only reported).  Exit 1 reproduces, 0 does not, 2 cannot judge."""
    suffix = ".".join(pattern_path.split(".")[2:])
    fmap = FIELD_MAP.get(suffix, {})
    return REPLAY_HEAD + f'''
line = {line!r}
want = {want_groups!r} or {{}}
fmap = {fmap!r}
d = accepts({pattern_path!r}, line)
print("line", repr(line), "->", d)
if d is None:
    print("REPRODUCED: SPEC line rejected"); sys.exit(1)
judged = 0
for g, v in want.items():
    if int(g) not in fmap:
        continue
    attr, conv = fmap[int(g)]
    try:
        got = d
        for part in attr.split("."):
            got = getattr(got, part)
    except AttributeError:
        continue
    judged += 1
    exp = int(v) if conv == "int" else v
    if got != exp:
        print("REPRODUCED: decoded", attr, "=", repr(got), "SPEC value", repr(exp)); sys.exit(1)
if judged == 0:
    print("CANNOT-JUDGE: no decoded attribute corresponds to the capture groups"); sys.exit(2)
print("NOT-REPRODUCED (decoded values are the SPEC values)"); sys.exit(2 if judged < len(want) else 0)
'''


def capture_family(run: Run, label, pattern, path, segs):
    rx.set_mode(MODES.get(pattern, "match"))
    try:
        res = rx_capture.analyze(pattern, segs, run.q, label)
    finally:
        rx.set_mode("match")
    if res["verdict"] == "candidate":
        run.fail.append((label + ":capture", res.get("line"),
                         replay_groups(path, "_regex", res.get("line"), res.get("want_groups"))))
    elif res["verdict"] != "holds":
        run.inconclusive.append(f"{label}:capture {res['detail']}")
    return res


# ------------------------------------------------------------------------------------------------
# C07
# ------------------------------------------------------------------------------------------------
IDX07 = cs_to_re(((48, 55),))
WORD = plus(NONWS_CS)          # one or more non-whitespace characters


def c07(timeout=120, **kw):
    L = _live()
    run = Run(timeout)
    bad = _check_compiled({k: L[k] for k in ("N", "S", "E")})
    if bad:
        return {"verdict": "inconclusive", "detail": "compiled program differs from _regex for %s" % bad}
    s = z3.String("s")
    fam = {
        "N": line_segs(" = N ", seg(IDX07, 2, "idx"), seg(lit(" ")), seg(DIG, 3, "len")),
        "S": line_segs(" = S 2 ", seg(DIG, 2, "len")),
        "E": line_segs(" = E ", seg(WORD, 2, "word")),
    }
    up = {
        "N": up_line(" = N ", cs_to_re(((48, 55),)), lit(" "), plus(UD_CS)),
        "S": up_line(" = S 2 ", plus(UD_CS)),
        "E": up_line(" = E ", star(cs_neg(((32, 32),)))),
    }
    Lre = {k: tr(L[k][0]) for k in fam}
    for k in fam:
        pat, path = L[k]
        spec = whole(fam[k])
        run.witness(f"SPEC_{k}", spec, pat, True)
        run.expect_unsat(f"C07:SPEC_{k}<=L_{k}", [z3.InRe(s, spec), z3.Not(z3.InRe(s, Lre[k]))], s,
                         lambda line, path=path: replay_must_accept(path, line))
        run.expect_unsat(f"C07:L_{k}<=UP_{k}", [z3.InRe(s, Lre[k]), z3.Not(z3.InRe(s, up[k]))], s,
                         lambda line, path=path, k=k: replay_must_reject([path], line, "line of another shape accepted as " + k))
        capture_family(run, f"C07:{k}", pat, path, fam[k])
        for j in fam:
            if j != k:
                run.expect_unsat(f"C07:SPEC_{k}^L_{j}", [z3.InRe(s, spec), z3.InRe(s, Lre[j])], s,
                                 lambda line, p2=L[j][1], k=k: replay_must_reject([p2], line, "canonical %s line accepted by another kind" % k))
    # explicit negatives of the statement
    other_idx = z3.Intersect(DIG, z3.Complement(lit("2")))
    neg = {
        "S<other index>": cat(BL, DIG, lit(" = S "), other_idx, lit(" "), DIG, BL),
        "N[89]": cat(BL, DIG, lit(" = N "), cs_to_re(((56, 57),)), lit(" "), DIG, BL),
        "N<two digits>": cat(BL, DIG, lit(" = N "), cs_to_re(((48, 57),)), DIG, lit(" "), DIG, BL),
        "E<two words>": cat(BL, DIG, lit(" = E "), WORD, z3.Plus(cat(lit(" "), star(((32, 32),)), WORD)), BL),
        "N<missing length>": cat(BL, DIG, lit(" = N "), IDX07, BL),
        "<no tick>": cat(BL, lit("= N "), IDX07, lit(" "), DIG),
    }
    for nname, nre in neg.items():
        run.witness("NEG " + nname, nre)
        for k in fam:
            run.expect_unsat(f"C07:NEG[{nname}]^L_{k}", [z3.InRe(s, nre), z3.InRe(s, Lre[k])], s,
                             lambda line, path=L[k][1], nname=nname: replay_must_reject([path], line, "negative shape " + nname))
    return run.finish()


# ------------------------------------------------------------------------------------------------
# C08
# ------------------------------------------------------------------------------------------------


def c08(timeout=120, **kw):
    L = _live()
    run = Run(timeout)
    bad = _check_compiled({k: L[k] for k in ("B", "TS", "A")})
    if bad:
        return {"verdict": "inconclusive", "detail": "compiled program differs from _regex for %s" % bad}
    s = z3.String("s")
    fam = {
        "B": ("B", line_segs(" = B ", seg(DIG, 2, "bpm"))),
        "TS2": ("TS", line_segs(" = TS ", seg(DIG, 2, "upper"))),
        "TS3": ("TS", line_segs(" = TS ", seg(DIG, 2, "upper"), seg(lit(" ")), seg(DIG, 3, "lower"))),
        "A": ("A", line_segs(" = A ", seg(DIG, 2, "us"), trailing_blanks=False)),
    }
    up = {
        "B": up_line(" = B ", plus(UD_CS)),
        "TS": up_line(" = TS ", plus(UD_CS), z3.Option(cat(lit(" "), plus(UD_CS)))),
        "A": up_line(" = A ", plus(UD_CS), trailing=False),
    }
    Lre = {k: tr(L[k][0]) for k in ("B", "TS", "A")}
    for k in ("B", "TS", "A"):
        run.expect_unsat(f"C08:L_{k}<=UP_{k}", [z3.InRe(s, Lre[k]), z3.Not(z3.InRe(s, up[k]))], s,
                         lambda line, path=L[k][1], k=k: replay_must_reject([path], line, "line of another shape accepted as " + k))
    for f, (k, segs) in fam.items():
        pat, path = L[k]
        spec = whole(segs)
        run.witness(f"SPEC_{f}", spec, pat, True)
        run.expect_unsat(f"C08:SPEC_{f}<=L_{k}", [z3.InRe(s, spec), z3.Not(z3.InRe(s, Lre[k]))], s,
                         lambda line, path=path: replay_must_accept(path, line))
        capture_family(run, f"C08:{f}", pat, path, segs)
        for j in ("B", "TS", "A"):
            if j != k:
                run.expect_unsat(f"C08:SPEC_{f}^L_{j}", [z3.InRe(s, spec), z3.InRe(s, Lre[j])], s,
                                 lambda line, p2=L[j][1], f=f: replay_must_reject([p2], line, "canonical %s line accepted by another kind" % f))
    # arity: a two-field TS line must leave group 3 unset (lower numeral defaults), cf. capture variants
    return run.finish()


# ------------------------------------------------------------------------------------------------
# C14 (pairwise disjointness, all strings)
# ------------------------------------------------------------------------------------------------


def c14(timeout=120, **kw):
    L = _live()
    run = Run(timeout)
    s = z3.String("s")
    bad0 = _check_compiled({k: L[k] for k in ("B", "TS", "A", "N", "S", "E")})
    for grp in (("B", "TS", "A"), ("N", "S", "E")):
        for i in range(3):
            run.witness("L_" + grp[i], tr(L[grp[i]][0]))
            for j in range(i + 1, 3):
                a, b = grp[i], grp[j]
                run.expect_unsat(f"C14:L_{a}^L_{b}",
                                 [z3.InRe(s, tr(L[a][0])), z3.InRe(s, tr(L[b][0]))], s,
                                 lambda line, pa=L[a][1], pb=L[b][1]: replay_must_reject([pa, pb], line, "one string claimed by two kinds"))
    if bad0:
        run.inconclusive.append("compiled program differs from _regex for %s" % bad0)
    return run.finish()


# ------------------------------------------------------------------------------------------------
# C09
# ------------------------------------------------------------------------------------------------


def live_kind_order(track_cls_path, module_name):
    """Order in which the dispatcher tries the kinds of a track (read with a spy, DESIGN C09)."""
    import importlib

    import chartparse.track as T
    parts = track_cls_path.split(".")
    mod = importlib.import_module(".".join(parts[:2]))
    cls = getattr(mod, parts[2])
    seen = {}
    orig = T.parse_data_from_chart_lines

    def spy(types, lines):
        seen["types"] = list(types)
        return orig(types, lines)
    T.parse_data_from_chart_lines = spy
    try:
        cls._parse_data_from_chart_lines([])
    finally:
        T.parse_data_from_chart_lines = orig
    return seen.get("types")


def c09(timeout=120, **kw):
    import chartparse.globalevents as G
    L = _live()
    run = Run(timeout)
    bad = _check_compiled({k: L[k] for k in ("LYR", "SEC", "TXT")})
    if bad:
        return {"verdict": "inconclusive", "detail": "compiled program differs from _regex for %s" % bad}
    order = live_kind_order("chartparse.globalevents.GlobalEventsTrack", "globalevents")
    name_of = {G.LyricEvent.ParsedData: "LYR", G.SectionEvent.ParsedData: "SEC", G.TextEvent.ParsedData: "TXT"}
    if order is None or any(t not in name_of for t in order):
        return {"verdict": "inconclusive", "detail": "could not read the live kind order: %r" % (order,)}
    order = [name_of[t] for t in order]
    s = z3.String("s")
    ANYV = star(DOT_CS)                                   # any text without newline (quotes included)
    NOQ = star(cs_neg(((10, 10), (34, 34))))              # quote-free, newline-free
    full = z3.Star(cs_to_re(rx.ANY_CS))
    TXTV = z3.Intersect(NOQ, z3.Complement(cat(lit("lyric "), full)), z3.Complement(cat(lit("section "), full)))
    fam = {
        "LYR": line_segs(' = E "lyric ', seg(ANYV, 2, "value"), seg(lit('"'))),
        "SEC": line_segs(' = E "section ', seg(ANYV, 2, "value"), seg(lit('"'))),
        "TXT": line_segs(' = E "', seg(TXTV, 2, "value"), seg(lit('"'))),
    }
    Lre = {k: tr(L[k][0]) for k in fam}
    for k, segs in fam.items():
        pat, path = L[k]
        spec = whole(segs)
        run.witness(f"SPEC_{k}", spec, pat, True)
        run.expect_unsat(f"C09:SPEC_{k}<=L_{k}", [z3.InRe(s, spec), z3.Not(z3.InRe(s, Lre[k]))], s,
                         lambda line, path=path: replay_must_accept(path, line))
        if k not in order:
            run.inconclusive.append("kind %s is not dispatched" % k)
            continue
        for j in order[:order.index(k)]:
            run.expect_unsat(f"C09:SPEC_{k}^earlier L_{j}", [z3.InRe(s, spec), z3.InRe(s, Lre[j])], s,
                             lambda line, p2=L[j][1], k=k: replay_must_reject([p2], line, "a %s line is claimed by an earlier kind" % k))
        capture_family(run, f"C09:{k}", pat, path, segs)
    # the words without their trailing blank are plain text
    for wname, wre in (("lyric", lit("lyric")), ("section", lit("section")), ("lyrics", lit("lyrics x")),
                       ("sectional", lit("sectional"))):
        probe = cat(BL, DIG, lit(' = E "'), wre, lit('"'), BL)
        run.expect_unsat(f"C09:'{wname}' is text", [z3.InRe(s, probe), z3.Not(z3.InRe(s, whole(fam["TXT"])))], s,
                         lambda line: replay_must_accept(L["TXT"][1], line))
    # upper bounds: nothing but quoted events is accepted by the three kinds
    UPQ = up_line(' = E "', star(rx.ANY_CS), lit('"'))
    for k in fam:
        run.expect_unsat(f"C09:L_{k}<=UP", [z3.InRe(s, Lre[k]), z3.Not(z3.InRe(s, UPQ))], s,
                         lambda line, path=L[k][1]: replay_must_reject([path], line, "non-quoted line accepted"))
    run.samples.append({"live kind order": order})
    return run.finish("live kind order %s" % order)


# ------------------------------------------------------------------------------------------------
# C10
# ------------------------------------------------------------------------------------------------
NUMERIC = ["Resolution", "Offset", "Difficulty", "PreviewStart", "PreviewEnd"]
STRINGS = ["Genre", "MediaType", "Name", "Artist", "Charter", "Album", "Year", "MusicStream",
           "GuitarStream", "RhythmStream", "BassStream", "DrumStream", "Drum2Stream", "Drum3Stream",
           "Drum4Stream", "VocalStream", "KeysStream", "CrowdStream"]
SNAKE = {"Resolution": "resolution", "Offset": "offset", "Player2": "player2", "Difficulty": "difficulty",
         "PreviewStart": "preview_start", "PreviewEnd": "preview_end", "Genre": "genre",
         "MediaType": "media_type", "Name": "name", "Artist": "artist", "Charter": "charter",
         "Album": "album", "Year": "year", "MusicStream": "music_stream", "GuitarStream": "guitar_stream",
         "RhythmStream": "rhythm_stream", "BassStream": "bass_stream", "DrumStream": "drum_stream",
         "Drum2Stream": "drum2_stream", "Drum3Stream": "drum3_stream", "Drum4Stream": "drum4_stream",
         "VocalStream": "vocal_stream", "KeysStream": "keys_stream", "CrowdStream": "crowd_stream"}

MD_REPLAY = '''#!/usr/bin/env python
# Replay of an RX counterexample on a metadata line.  Exit 1 = reproduces, 0 = not, 2 = cannot judge.
import os, sys, re
REPO = os.environ.get("VERIF_REPO", "/repo")
sys.path.insert(0, REPO)
import chartparse.chart
from chartparse.metadata import Metadata, _field_parsing_specs as SPECS
line = %(line)r
mode = %(mode)r
if mode == "value":
    field, want = %(field)r, %(want)r
    lines = [line] if field == "resolution" else ["Resolution = 192", line]
    try:
        md = Metadata.from_chart_lines(lines)
        got = getattr(md, field)
    except Exception as e:
        got = "raised " + type(e).__name__
    print("line", repr(line), "field", field, "=", repr(got), "SPEC value", repr(want))
    if want == "<accepted>":
        m = SPECS[field].regex_prog.match(line)
        ok = m is not None
    else:
        exp = want
        if isinstance(got, int) and not isinstance(got, bool):
            exp = int(want)
        elif hasattr(got, "value") and not isinstance(got, str):
            got = got.value
        ok = got == exp
        if ok:
            print("CANNOT-JUDGE: the decoded field is the SPEC value although the raw capture differs"); sys.exit(2)
    print("NOT-REPRODUCED" if ok else "REPRODUCED"); sys.exit(0 if ok else 1)
else:
    hits = [f for f in %(fields)r if SPECS[f].regex_prog.match(line)]
    print("line", repr(line), "claimed by", hits)
    bad = len(hits) >= 2
    print("REPRODUCED" if bad else "NOT-REPRODUCED"); sys.exit(1 if bad else 0)
'''


def c10(timeout=300, **kw):
    import chartparse.chart  # noqa: F401
    import chartparse.metadata as M
    run = Run(timeout)
    specs = M._field_parsing_specs
    s = z3.String("s")
    allf = NUMERIC + ["Player2"] + STRINGS
    missing = [f for f in allf if SNAKE[f] not in specs]
    if missing or len(specs) != 24:
        return {"verdict": "inconclusive", "detail": "field table differs: missing %s, %d specs" % (missing, len(specs))}
    for f in allf:
        sp = specs[SNAKE[f]]
        if sp.regex_prog.pattern != sp.regex or (sp.regex_prog.flags & ~re.UNICODE):
            return {"verdict": "inconclusive", "detail": "compiled program differs from regex for " + f}
    Lre = {f: rx.pattern_to_re(specs[SNAKE[f]].regex) for f in allf}
    VSTR = plus(DOT_CS)
    P2 = z3.Union(lit("bass"), lit("rhythm"))
    for f in allf:
        pat = specs[SNAKE[f]].regex
        if f in STRINGS:
            segs = [seg(BL), seg(lit(f + " = ")), seg(lit('"')), seg(VSTR, 1, "value"), seg(lit('"')), seg(BL)]
        elif f == "Player2":
            segs = [seg(BL), seg(lit(f + " = ")), seg(rx_capture.EPS), seg(P2, 1, "value"), seg(rx_capture.EPS), seg(BL)]
        else:
            segs = [seg(BL), seg(lit(f + " = ")), seg(rx_capture.EPS), seg(DIG, 1, "value"), seg(rx_capture.EPS), seg(BL)]
        spec = whole(segs)
        run.witness("SPEC_" + f, spec, pat, True)
        run.expect_unsat(f"C10:SPEC_{f}<=L", [z3.InRe(s, spec), z3.Not(z3.InRe(s, Lre[f]))], s,
                         lambda line, f=f: MD_REPLAY % dict(line=line, mode="value", field=SNAKE[f], want="<accepted>", fields=[]))
        res = rx_capture.analyze(pat, segs, run.q, "C10:" + f)
        if res["verdict"] == "candidate":
            want = (res.get("want_groups") or {}).get("1")
            run.fail.append((f"C10:{f}:capture", res.get("line"),
                             MD_REPLAY % dict(line=res.get("line"), mode="value", field=SNAKE[f], want=want, fields=[])))
        elif res["verdict"] != "holds":
            run.inconclusive.append(f"C10:{f}:capture {res['detail']}")
    # non-interference: no string is a line of two fields (276 pairs)
    for i in range(len(allf)):
        for j in range(i + 1, len(allf)):
            a, b = allf[i], allf[j]
            run.expect_unsat(f"C10:L_{a}^L_{b}", [z3.InRe(s, Lre[a]), z3.InRe(s, Lre[b])], s,
                             lambda line, a=a, b=b: MD_REPLAY % dict(line=line, mode="pair", field="", want="", fields=[SNAKE[a], SNAKE[b]]))
    return run.finish()


# ------------------------------------------------------------------------------------------------
# C06: header pattern
# ------------------------------------------------------------------------------------------------


def c06_header(timeout=60, **kw):
    import chartparse.chart as CH
    run = Run(timeout)
    pat = CH.Chart._header_tag_regex
    prog = CH.Chart._header_tag_regex_prog
    if prog.pattern != pat or (prog.flags & ~re.UNICODE):
        return {"verdict": "inconclusive", "detail": "compiled header program differs from _header_tag_regex"}
    s = z3.String("s")
    Lh = rx.pattern_to_re(pat)
    NAME = plus(DOT_CS)
    segs = [seg(lit("[")), seg(NAME, 1, "name"), seg(lit("]"))]
    spec = whole(segs)
    nonl = star(DOT_CS)
    rep = '''#!/usr/bin/env python
import os, sys
REPO = os.environ.get("VERIF_REPO", "/repo"); sys.path.insert(0, REPO)
import chartparse.chart as CH
line = %r
m = CH.Chart._header_tag_regex_prog.match(line)
want_ok = len(line) >= 3 and line[0] == "[" and line[-1] == "]" and "\\n" not in line
got = m.group(1) if m else None
print(repr(line), "->", repr(got), "expected header:", want_ok)
bad = (m is not None) != want_ok or (m is not None and got != line[1:-1])
print("REPRODUCED" if bad else "NOT-REPRODUCED"); sys.exit(1 if bad else 0)
'''
    run.witness("SPEC_header", spec, pat, True)
    run.expect_unsat("C06:SPEC_header<=L", [z3.InRe(s, spec), z3.Not(z3.InRe(s, Lh))], s, lambda line: rep % line)
    run.expect_unsat("C06:L(no newline)<=SPEC_header", [z3.InRe(s, Lh), z3.InRe(s, nonl), z3.Not(z3.InRe(s, spec))], s,
                     lambda line: rep % line)
    res = rx_capture.analyze(pat, segs, run.q, "C06:header")
    if res["verdict"] == "candidate":
        run.fail.append(("C06:header:capture", res.get("line"), rep % res.get("line")))
    elif res["verdict"] != "holds":
        run.inconclusive.append("C06:header:capture " + res["detail"])
    return run.finish()
