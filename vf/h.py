"""Helpers shared by the CrossHair harnesses (stubs S2-S6 of DESIGN.md §2.1.3).

Importing this module imports ``chartparse.chart`` *first* so that the circular-import defect
(C20) cannot mask other verdicts.
"""
from __future__ import annotations

import ast
import inspect
import os
import sys
import textwrap
from datetime import timedelta as _real_timedelta

_REPO = os.environ.get("VERIF_REPO", "/repo")
if _REPO not in sys.path:
    sys.path.insert(0, _REPO)

import chartparse.chart  # noqa: E402,F401  (must be first, see module docstring)
import chartparse.globalevents  # noqa: E402
import chartparse.instrument  # noqa: E402
import chartparse.metadata  # noqa: E402
import chartparse.sync  # noqa: E402
import chartparse.tick  # noqa: E402
import chartparse.time  # noqa: E402
import chartparse.track  # noqa: E402

TWIN = [False]
REACHED = [0]


def done(ok):
    """Every harness returns through here: counts reached paths, forces False for the twin."""
    REACHED[0] += 1
    if TWIN[0]:
        return False
    if not ok:
        import vf.tok as _K
        armed, _K.ARMED[0] = _K.ARMED[0], False
        if armed and _K.MATCHES[0] == 0:
            raise Poison("token lines were recognised by something other than the stubbed recognisers (S7' does not apply)")
    else:
        import vf.tok as _K
        _K.ARMED[0] = False
    return ok


def untraced():
    """Run concrete-only bookkeeping (deep copies, snapshots of concrete objects) natively."""
    import contextlib
    try:
        from crosshair.tracers import NoTracing, is_tracing
        if is_tracing():
            return NoTracing()
    except ImportError:  # concrete replay without CrossHair on the path
        pass
    return contextlib.nullcontext()


def isolated(module, func, *args):
    """Run `module.func(*args)` (concrete JSON-able arguments, returns a bool) in a FRESH interpreter.

    Used by harnesses about sequences of calls: every explored path then has exactly its own history,
    explored paths cannot influence each other through state a (mutated) implementation keeps, and
    a replay re-runs exactly the same history."""
    import json
    import subprocess
    prog = ("import json, logging, sys; logging.disable(logging.CRITICAL); sys.path[:0] = %r; import importlib; "
            "m = importlib.import_module(%r); print('ISOLATED ' + json.dumps(bool(getattr(m, %r)(*json.loads(sys.argv[1])))))"
            % ([p for p in sys.path if p], module, func))
    with untraced():
        p = subprocess.run([sys.executable, "-c", prog, json.dumps(list(args))], capture_output=True, text=True, timeout=300,
                           env=dict(os.environ, VF_ISOLATED="1"))
        for ln in p.stdout.splitlines():
            if ln.startswith("ISOLATED "):
                return json.loads(ln[9:])
        raise IsolatedFailure(p.stderr[-600:])


class IsolatedFailure(Exception):
    """The isolated run raised: its traceback text is the message (the replay re-runs it)."""


def pick(seq, i):
    """seq[i] for a symbolic index, by branching: the element stays a concrete object."""
    for k in range(len(seq)):
        if i == k:
            return seq[k]
    raise Poison("index out of range")


def part(name: str, default: int) -> int:
    """Discrete partition parameter (fixed per process, DESIGN §1.9)."""
    return int(os.environ.get(name, default))


# --------------------------------------------------------------------------------------------
# S3 abstract time
# --------------------------------------------------------------------------------------------


class Poison(Exception):
    """Raised when a stub is used outside its contract: fails every harness (never 'documented')."""


def _us(o):
    if isinstance(o, AbsTime):
        return o.us
    if type(o) is _real_timedelta or isinstance(o, _real_timedelta):
        return (o.days * 86400 + o.seconds) * 10**6 + o.microseconds
    raise Poison(f"not a time value: {type(o)}")


class TD(_real_timedelta):
    """Stand-in for ``datetime.timedelta`` bound into chartparse.sync / chartparse.time."""

    def __new__(cls, days=0, seconds=0, microseconds=0, milliseconds=0, minutes=0, hours=0, weeks=0):
        if cls is not TD:
            return _real_timedelta.__new__(cls, 0)
        rest = (days, microseconds, milliseconds, minutes, hours, weeks)
        if isinstance(seconds, TaggedSeconds):
            # the kernel's result goes to timedelta(seconds=...) as it is (E1); integer parts may be added
            if not all(_is_int(x) for x in rest):
                raise Poison("timedelta(seconds=<tagged>, <non-integer parts>)")
            seconds.consumed += 1
            return AbsTime(seconds.us + _int_parts_us(days, 0, microseconds, milliseconds, minutes, hours, weeks))
        if _is_int(seconds) and all(_is_int(x) for x in rest):
            # integer arguments (symbolic or not): exact, by the documented normalisation
            return AbsTime(_int_parts_us(days, seconds, microseconds, milliseconds, minutes, hours, weeks))
        if all(type(x) in (int, float) for x in (seconds,) + rest):
            # concrete numbers: whatever the real class makes of them
            with untraced():
                return AbsTime(_us(_real_timedelta(days=days, seconds=seconds, microseconds=microseconds, milliseconds=milliseconds,
                                                   minutes=minutes, hours=hours, weeks=weeks)))
        raise Poison("timedelta(seconds=<untagged %s>)" % type(seconds).__name__)


def _is_int(x):
    return isinstance(x, int) and not isinstance(x, bool)


def _int_parts_us(days, seconds, microseconds, milliseconds, minutes, hours, weeks):
    return ((((weeks * 7 + days) * 24 + hours) * 60 + minutes) * 60 + seconds) * 10**6 + milliseconds * 1000 + microseconds


class AbsTime(TD):
    """An exact integer number of microseconds (symbolic under CrossHair)."""

    _vf_abstract = True

    def __new__(cls, us):
        self = _real_timedelta.__new__(cls, 0)
        self.us = us
        return self

    def __add__(self, o):
        return AbsTime(self.us + _us(o))

    __radd__ = __add__

    def __sub__(self, o):
        return AbsTime(self.us - _us(o))

    def __rsub__(self, o):
        return AbsTime(_us(o) - self.us)

    def __lt__(self, o):
        return self.us < _us(o)

    def __le__(self, o):
        return self.us <= _us(o)

    def __gt__(self, o):
        return self.us > _us(o)

    def __ge__(self, o):
        return self.us >= _us(o)

    def __eq__(self, o):
        if isinstance(o, _real_timedelta):
            return self.us == _us(o)
        return NotImplemented

    def __ne__(self, o):
        if isinstance(o, _real_timedelta):
            return self.us != _us(o)
        return NotImplemented

    def __hash__(self):
        return 0

    def __bool__(self):
        if self.us != 0:        # branch: __bool__ must return a real bool
            return True
        return False

    def total_seconds(self):
        return AbsSecs(self.us)

    # the normalised fields of the real class (0 <= microseconds < 10^6, 0 <= seconds < 86400), so that
    # code taking a time apart and putting it together again is judged on what it really computes
    @property
    def days(self):
        return self.us // (86400 * 10**6)

    @property
    def seconds(self):
        return (self.us // 10**6) % 86400

    @property
    def microseconds(self):
        return self.us % 10**6

    def __mul__(self, k):
        if not _is_int(k):
            raise Poison("time multiplied by a non-integer")
        return AbsTime(self.us * k)

    __rmul__ = __mul__

    def __neg__(self):
        return AbsTime(-self.us)

    def __abs__(self):
        return AbsTime(self.us if self.us >= 0 else -self.us)

    def __repr__(self):
        return "AbsTime(<us>)"

    __str__ = __repr__

    def __format__(self, spec):
        return "AbsTime(<us>)"


class AbsSecs(float):
    """Result of AbsTime.total_seconds(): compares by microseconds, divides into a tagged Rate."""

    _vf_abstract = True

    def __new__(cls, us):
        self = float.__new__(cls, 0.0)
        self.us = us
        return self

    def _o(self, o):
        if isinstance(o, AbsSecs):
            return o.us
        if type(o) is int and o == 0:
            return 0
        raise Poison("AbsSecs compared with %r" % type(o))

    def __le__(self, o):
        return self.us <= self._o(o)

    def __lt__(self, o):
        return self.us < self._o(o)

    def __ge__(self, o):
        return self.us >= self._o(o)

    def __gt__(self, o):
        return self.us > self._o(o)

    def __eq__(self, o):
        return self.us == self._o(o)

    def __ne__(self, o):
        return self.us != self._o(o)

    def __hash__(self):
        return 0

    def __rtruediv__(self, num):
        return Rate(num, self.us)

    def is_integer(self):
        return self.us % 10**6 == 0

    def __format__(self, spec):
        return "<secs>"


class Rate(float):
    _vf_abstract = True

    def __new__(cls, num, us):
        self = float.__new__(cls, 0.0)
        self.num = num
        self.us = us
        return self


class TaggedSeconds(float):
    """Opaque result of the stubbed ``seconds_from_ticks_at_bpm`` (S4)."""

    _vf_abstract = True

    def __new__(cls, us, args=None):
        self = float.__new__(cls, 0.0)
        self.us = us
        self.args = args
        self.consumed = 0
        return self

    # whole seconds may be added to the kernel's result before it becomes a timedelta (exact in binary64
    # far beyond the property's 10^6 s); anything else done to it is outside the stub's contract
    def __add__(self, o):
        if _is_int(o):
            return TaggedSeconds(self.us + o * 10**6, self.args)
        return NotImplemented

    __radd__ = __add__


# --------------------------------------------------------------------------------------------
# S4 seconds stub: live guard prefix + tagged tail
# --------------------------------------------------------------------------------------------


def _split_guards(fn):
    """Return (compiled guard function, tail statements) of the live kernel.

    The live function must have the shape: docstring; `if c: raise E(...)`*; straight-line tail.
    """
    src = textwrap.dedent(inspect.getsource(fn))
    tree = ast.parse(src)
    fdef = tree.body[0]
    assert isinstance(fdef, ast.FunctionDef)
    body = list(fdef.body)
    if body and isinstance(body[0], ast.Expr) and isinstance(getattr(body[0], "value", None), ast.Constant):
        body = body[1:]
    guards = []
    while body and isinstance(body[0], ast.If) and len(body[0].body) == 1 and \
            isinstance(body[0].body[0], ast.Raise) and not body[0].orelse:
        guards.append(body.pop(0))
    for st in body:
        for node in ast.walk(st):
            if isinstance(node, (ast.Raise, ast.If, ast.For, ast.While, ast.Try, ast.With)):
                raise Poison("kernel tail is not straight-line: %s" % ast.dump(node)[:80])
    gdef = ast.FunctionDef(
        name="_guards", args=fdef.args, body=guards + [ast.Return(value=ast.Constant(value=None))],
        decorator_list=[], returns=None, type_comment=None, type_params=[])
    mod = ast.Module(body=[gdef], type_ignores=[])
    ast.fix_missing_locations(mod)
    ns = dict(fn.__globals__)
    exec(compile(mod, "<live-guards:%s>" % fn.__name__, "exec"), ns)
    return ns["_guards"], body


_LIVE_SECONDS = chartparse.tick.seconds_from_ticks_at_bpm


def _guards_by_representatives(ticks, bpm, resolution):
    """Fallback when the live kernel is not of the shape `guards; straight-line tail`: run the WHOLE live
    kernel natively on sign representatives of the integer arguments (-1 / 0 / 1) and mirror whether
    it raises.  Contract assumed: whether the kernel rejects its arguments depends on the tempo and
    on the signs of ticks and resolution only (its documented preconditions)."""
    t = -1 if ticks < 0 else (0 if ticks == 0 else 1)
    r = -1 if resolution < 0 else (0 if resolution == 0 else 1)
    with untraced():
        _LIVE_SECONDS(t, bpm, r)
    return None


try:
    _SEC_GUARDS, _SEC_TAIL = _split_guards(_LIVE_SECONDS)
    GUARD_MODE = "live guard prefix (AST)"
except Exception:  # noqa: BLE001 - any shape we cannot split
    _SEC_GUARDS, _SEC_TAIL = _guards_by_representatives, None
    GUARD_MODE = "whole live kernel on sign representatives"


class Clock:
    """Policy object for the stubbed kernel; `log` records (ticks, bpm, resolution, us)."""

    def __init__(self, policy, pool=None, mult=None):
        self.policy = policy
        self.pool = list(pool or [])
        self.mult = mult or {}
        self.log = []
        self.assume_ok = True

    def __call__(self, ticks, bpm, resolution):
        _SEC_GUARDS(ticks, bpm, resolution)
        if self.policy == "recorder":
            if not self.pool:
                raise Poison("clock pool exhausted")
            us = self.pool.pop(0)
        elif self.policy == "linear":
            # concrete positive multiplier per bpm value: us = ticks * m(bpm)
            us = ticks * self.mult[bpm]
        elif self.policy == "affine":
            # a concrete kernel stand-in depending on all three arguments:
            # us = ticks * m(bpm) + (resolution if ticks > 0 else 0);  0 at 0, monotone in ticks
            us = ticks * self.mult[bpm] + (resolution if ticks > 0 else 0)
        elif self.policy == "monotone":
            if not self.pool:
                raise Poison("clock pool exhausted")
            us = self.pool.pop(0)
            # Ackermann-style axioms (FK lemmas K2/K3): functional, monotone in ticks, 0 at 0.
            # Written with non-short-circuit operators so that no path fork happens here.
            ok = (us >= 0) & ((ticks != 0) | (us == 0))
            for (t2, b2, r2, u2) in self.log:
                if b2 is bpm or b2 == bpm:
                    ok = ok & ((t2 != ticks) | (u2 == us))
                    ok = ok & ((t2 >= ticks) | (u2 <= us))
                    ok = ok & ((t2 <= ticks) | (us <= u2))
            self.assume_ok = self.assume_ok & ok
        else:
            raise Poison("unknown clock policy")
        self.log.append((ticks, bpm, resolution, us))
        return TaggedSeconds(us, (ticks, bpm, resolution))


_MISSING = object()


class patched:
    """Context manager: rebind module attributes for the duration of a harness body."""

    def __init__(self, *triples):
        self.triples = triples
        self.saved = []

    def __enter__(self):
        for (obj, name, val) in self.triples:
            self.saved.append((obj, name, getattr(obj, name, _MISSING)))
            setattr(obj, name, val)
        return self

    def __exit__(self, *a):
        for (obj, name, val) in reversed(self.saved):
            if val is _MISSING:
                delattr(obj, name)      # the name was a builtin seen through the module (e.g. open)
            else:
                setattr(obj, name, val)
        return False


def abstract_time(clock):
    """S3+S4: timedelta -> TD in sync/time/chart, kernel -> clock."""
    return patched(
        (chartparse.sync, "timedelta", TD),
        (chartparse.time, "timedelta", TD),
        (chartparse.chart, "timedelta", TD),
        (chartparse.tick, "seconds_from_ticks_at_bpm", clock),
    )


# S2: memo tables off (hashing a symbolic argument would realise it)
def unwrap_caches():
    out = []
    f = chartparse.instrument._refined_sustain_tuple
    if hasattr(f, "__wrapped__"):
        out.append((chartparse.instrument, "_refined_sustain_tuple", f.__wrapped__))
    g = chartparse.tick.note_duration_to_ticks
    if hasattr(g, "__wrapped__"):
        out.append((chartparse.tick, "note_duration_to_ticks", g.__wrapped__))
    return out


class CountingLogger:
    """S6: stand-in for a module logger."""

    def __init__(self, debug_on=False):
        self.warnings = []
        self.debug_on = debug_on          # an application that has switched the library's loggers to DEBUG
        self.lower = []

    def warning(self, msg, *a, **k):
        self.warnings.append(msg)

    def isEnabledFor(self, level):
        return level >= (10 if self.debug_on else 30)

    def getEffectiveLevel(self):
        return 10 if self.debug_on else 30

    def debug(self, msg, *a, **k):
        if self.debug_on:
            self.lower.append(msg % a if a else msg)      # the message is really formatted, as a handler would

    info = debug

    def __getattr__(self, name):
        def _f(*a, **k):
            return None
        return _f


def canonical_notes():
    from chartparse.instrument import Note
    return [n for n in Note if isinstance(n.value, tuple)]
