"""Solver-based checking machinery for chartparse (see /verif/DESIGN.md)."""
import os

VERIF_DIR = os.path.dirname(os.path.dirname(os.path.abspath(__file__)))
REPO_DIR = os.environ.get("VERIF_REPO", "/repo")
