"""Structural facts read from the live AST (used together with solver obligations; concrete by nature)."""
from __future__ import annotations

import ast
import inspect
import sys
import textwrap

from . import REPO_DIR

if REPO_DIR not in sys.path:
    sys.path.insert(0, REPO_DIR)


def c06(timeout=30, **kw):
    import chartparse.chart as CH
    rows, inc = [], []
    src = textwrap.dedent(inspect.getsource(CH.Chart.from_file.__func__))
    names = [n.func.attr for n in ast.walk(ast.parse(src)) if isinstance(n, ast.Call) and isinstance(n.func, ast.Attribute)]
    ok1 = "splitlines" in names and "split" not in names
    rows.append({"name": "from_file splits with str.splitlines()", "ok": ok1})
    src2 = textwrap.dedent(inspect.getsource(CH.Chart.from_filepath.__func__))
    enc = [ast.literal_eval(k.value) for n in ast.walk(ast.parse(src2)) if isinstance(n, ast.Call) and getattr(n.func, "id", "") == "open"
           for k in n.keywords if k.arg == "encoding" and isinstance(k.value, ast.Constant)]
    ok2 = enc == ["utf-8-sig"]
    rows.append({"name": "from_filepath opens with encoding='utf-8-sig' (BOM stripped by the codec)", "ok": ok2, "seen": enc})
    if not ok1:
        inc.append("from_file does not split lines with splitlines(): newline independence not established")
    if not ok2:
        inc.append("from_filepath encoding is %r: BOM clause not established" % (enc,))
    out = {"queries": len(rows), "nontrivial": sum(1 for r in rows if r["ok"]), "solver_s": 0.0, "samples": rows, "validated": 0}
    if inc:
        out.update(verdict="inconclusive", detail="; ".join(inc))
    else:
        out.update(verdict="holds", detail="structural facts present")
    return out
