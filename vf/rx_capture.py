"""Capture-group reasoning for flat regular expressions (DESIGN.md §2.2 'capture obligations').

Claim to decide, for a live pattern R and a SPEC family  S = s_1 . s_2 ... s_p  (some segments
flagged as the values of capture groups 1..k):  for every string of S, ``re.match`` returns, for
each group, exactly the text of the flagged segment.

Tier 1 (shape independent; only the number of capture groups must agree): every *valid* parse of a
SPEC string has its chunk boundaries (chunks = text between / inside top-level groups) where the
SPEC puts them.  Two concatenation-membership queries per boundary ("first differing boundary").

Tier 2 (for boundaries that are ambiguous as languages and resolved by backtracking priority): the
SPEC segments are aligned with the live elements and, element by element, no *preferred* deviation
(shorter for a lazy quantifier, longer for a greedy one) can be completed to a match.  Then the SPEC
parse is the first parse in priority order, which is the one ``re`` returns.

Whenever a query is satisfiable the model is assembled into a concrete line and pushed through the
real compiled pattern; a line whose real groups differ from the SPEC values is a counterexample.
"""
from __future__ import annotations

import dataclasses
import re

import z3

from . import rx
from .rx import Elem, Q, Unsupported, cat, els_to_re, lit

EPS = lit("")


@dataclasses.dataclass
class Seg:
    re: object                 # z3 Re
    group: int = 0             # capture group number whose value this segment is (0: none)
    sample: str = ""           # a member (used when assembling concrete lines)
    name: str = ""


def variants(els, present_groups):
    """Inline optional groups that contain capture markers (taken iff their groups are present)."""
    out = []
    for e in els:
        if e.kind == "opt" and any(b.kind == "open" for b in e.body):
            gids = [b.gid for b in e.body if b.kind == "open"]
            if all(g in present_groups for g in gids):
                out.extend(variants(e.body, present_groups))   # taken: inline
            elif not any(g in present_groups for g in gids):
                # skipped: keep as an optional element without markers (aligned with an empty segment)
                out.append(Elem("opt", body=[b for b in e.body if b.kind not in ("open", "close")],
                                lazy=e.lazy))
            else:
                raise Unsupported("partially present optional group")
        else:
            out.append(e)
    return out


def chunk_live(els):
    """[A0, G1, A1, ...]: lists of elements between / inside top-level capture groups."""
    chunks, cur, depth, order = [], [], 0, []
    for e in els:
        if e.kind == "open":
            if depth == 0:
                chunks.append(cur)
                cur = []
                order.append(e.gid)
            depth += 1
        elif e.kind == "close":
            depth -= 1
            if depth == 0:
                chunks.append(cur)
                cur = []
        else:
            cur.append(e)
    chunks.append(cur)
    return chunks, order


def chunk_spec(segs):
    chunks, cur, order = [], [], []
    for s in segs:
        if s.group:
            chunks.append(cur)
            chunks.append([s])
            order.append(s.group)
            cur = []
        else:
            cur.append(s)
    chunks.append(cur)
    return chunks, order


def _re_of_segs(segs):
    return cat(*[s.re for s in segs]) if segs else EPS


def _re_of_els(els):
    return els_to_re(els) if els else EPS


def _sample(q: Q, r, name):
    x = z3.String("w")
    row = q.check("sample:" + name, [z3.InRe(x, r)], want="sat", model_vars=[x])
    if row["got"] != "sat":
        return None
    return rx.z3_unescape(row["model"]["w"])


def real_groups(pattern, line):
    m = re.compile(pattern).match(line)
    return None if m is None else m.groups()


def analyze(pattern: str, segs: list[Seg], q: Q, label: str):
    """Returns dict(verdict=holds|candidate|inconclusive, detail, counterexample)."""
    present = {s.group for s in segs if s.group}
    els, ngroups = rx.flatten(pattern)
    if any(e.kind == "head" for e in els):
        return {"verdict": "inconclusive", "detail": "pattern applied with search() and no leading ^: captures not analysed"}
    els = variants(els, present)
    live_chunks, live_order = chunk_live(els)
    spec_chunks, spec_order = chunk_spec(segs)
    if live_order != spec_order:
        return {"verdict": "inconclusive",
                "detail": f"group structure differs: live {live_order} spec {spec_order}"}
    C = [_re_of_els(c) for c in live_chunks]
    S = [_re_of_segs(c) for c in spec_chunks]
    m = len(C)
    whole_spec = cat(*S)
    whole_live = cat(*C)
    s = z3.String("s")
    row = q.check(f"{label}:accept", [z3.InRe(s, whole_spec), z3.Not(z3.InRe(s, whole_live))],
                  model_vars=[s])
    if row["got"] == "sat":
        line = rx.z3_unescape(row["model"]["s"])
        if real_groups(pattern, line) is None:
            return {"verdict": "candidate", "detail": "SPEC line not accepted", "line": line,
                    "want_groups": None}
        return {"verdict": "inconclusive", "detail": "translator disagreement on %r" % line}
    if row["got"] != "unsat":
        return {"verdict": "inconclusive", "detail": f"{label}:accept -> {row['got']}"}

    xs, z, r = z3.String("x"), z3.String("z"), z3.String("r")
    ambiguous = []
    for j in range(m - 1):
        Ct = cat(*C[j + 1:])
        St = cat(*S[j + 1:])
        a = q.check(f"{label}:boundary{j}:live-longer",
                    [z3.InRe(xs, S[j]), z3.Length(z) > 0, z3.InRe(z3.Concat(xs, z), C[j]),
                     z3.InRe(r, Ct), z3.InRe(z3.Concat(z, r), St)], model_vars=[xs, z, r])
        b = q.check(f"{label}:boundary{j}:live-shorter",
                    [z3.InRe(xs, C[j]), z3.Length(z) > 0, z3.InRe(z3.Concat(xs, z), S[j]),
                     z3.InRe(r, St), z3.InRe(z3.Concat(z, r), Ct)], model_vars=[xs, z, r])
        for rw in (a, b):
            if rw["got"] == "sat":
                ambiguous.append((j, rw))
            elif rw["got"] != "unsat":
                return {"verdict": "inconclusive", "detail": f"{rw['name']} -> {rw['got']}"}
    if not ambiguous:
        return {"verdict": "holds", "detail": "tier1: all chunk boundaries unambiguous on SPEC"}

    # concrete check of every ambiguity witness against the real pattern
    pre_samples = []
    for j in range(m):
        pre_samples.append(_sample(q, S[j], f"{label}:chunk{j}"))
    for (j, rw) in ambiguous:
        mod = {k: rx.z3_unescape(v) for k, v in rw["model"].items()}
        if None in pre_samples[:j]:
            continue
        pre = "".join(pre_samples[:j])
        if rw["name"].endswith("live-longer"):
            # SPEC: chunk j = x, rest = z.r
            line = pre + mod["x"] + mod["z"] + mod["r"]
            spec_parts = pre_samples[:j] + [mod["x"]]
        else:
            line = pre + mod["x"] + mod["z"] + mod["r"]
            spec_parts = pre_samples[:j] + [mod["x"] + mod["z"]]
        want = {}
        for jj, part in enumerate(spec_parts):
            if jj % 2 == 1:
                want[spec_order[jj // 2]] = part
        got = real_groups(pattern, line)
        if got is not None:
            for g, val in want.items():
                if got[g - 1] != val:
                    return {"verdict": "candidate", "detail": f"group {g} of {line!r} is {got[g-1]!r}, SPEC value {val!r}",
                            "line": line, "want_groups": {str(k): v for k, v in want.items()}}

    # tier 2: element-level priority argument
    t2 = tier2(els, segs, q, label, pattern)
    if t2["verdict"] == "holds":
        return {"verdict": "holds",
                "detail": "tier2: %d ambiguous boundaries resolved by priority (%s)" % (len(ambiguous), t2["detail"])}
    return t2


def tier2(els, segs, q: Q, label, pattern=None):
    live = [e for e in els]
    # align: walk both lists; group segments must sit exactly inside their markers
    pairs = []          # (element, seg)
    si = 0
    cur_group = 0
    segs = list(segs)
    if live and live[-1].kind in ("end", "tail"):
        segs = segs + [Seg(EPS, 0, "", "end")]
    for e in live:
        if e.kind == "open":
            cur_group = e.gid
            continue
        if e.kind == "close":
            cur_group = 0
            continue
        if si >= len(segs):
            return {"verdict": "inconclusive", "detail": "tier2: more live elements than SPEC segments"}
        sg = segs[si]
        si += 1
        if (sg.group or 0) != cur_group:
            return {"verdict": "inconclusive", "detail": "tier2: SPEC/live group alignment differs at %s" % e.describe()}
        pairs.append((e, sg))
    if si != len(segs):
        return {"verdict": "inconclusive", "detail": "tier2: SPEC has more segments than live elements"}
    xs, z, r, w = z3.String("x"), z3.String("z"), z3.String("r"), z3.String("w")
    n = len(pairs)
    for i, (e, sg) in enumerate(pairs):
        Le = els_to_re([e])
        # p* is a parse: segment language inside element language
        row = q.check(f"{label}:t2:elem{i}:incl", [z3.InRe(w, sg.re), z3.Not(z3.InRe(w, Le))], model_vars=[w])
        if row["got"] != "unsat":
            return {"verdict": "inconclusive", "detail": f"tier2: segment {i} not inside element {e.describe()} ({row['got']})"}
        if e.kind in ("lit", "end", "tail"):
            continue
        Lt = els_to_re([p[0] for p in pairs[i + 1:]]) if i + 1 < n else EPS
        St = cat(*[p[1].re for p in pairs[i + 1:]]) if i + 1 < n else EPS
        if e.lazy:
            row = q.check(f"{label}:t2:elem{i}:lazy-shorter",
                          [z3.InRe(xs, Le), z3.Length(z) > 0, z3.InRe(z3.Concat(xs, z), sg.re),
                           z3.InRe(r, St), z3.InRe(z3.Concat(z, r), Lt)], model_vars=[xs, z, r])
        else:
            row = q.check(f"{label}:t2:elem{i}:greedy-longer",
                          [z3.InRe(xs, sg.re), z3.Length(z) > 0, z3.InRe(z3.Concat(xs, z), Le),
                           z3.InRe(r, Lt), z3.InRe(z3.Concat(z, r), St)], model_vars=[xs, z, r])
        if row["got"] == "sat":
            # assemble a concrete line and ask the real pattern
            mod = {k: rx.z3_unescape(v) for k, v in row["model"].items()}
            pre = []
            for (pe, ps) in pairs[:i]:
                pre.append(_sample(q, ps.re, f"{label}:t2:seg") or "")
            line = "".join(pre) + mod["x"] + mod["z"] + mod["r"]
            own = mod["x"] + mod["z"] if e.lazy else mod["x"]
            want = {}
            for k2, (pe, ps) in enumerate(pairs[:i]):
                if ps.group:
                    want[ps.group] = pre[k2]
            if sg.group:
                want[sg.group] = own
            got = real_groups(pattern, line)
            if got is not None:
                for g, val in want.items():
                    if got[g - 1] != val:
                        return {"verdict": "candidate",
                                "detail": f"group {g} of {line!r} is {got[g-1]!r}, SPEC value {val!r}",
                                "line": line, "want_groups": {str(k): v for k, v in want.items()}}
            return {"verdict": "inconclusive",
                    "detail": f"tier2: preferred deviation possible at element {i} {e.describe()}: {row['model']}",
                    "model": row["model"], "elem": i}
        if row["got"] != "unsat":
            return {"verdict": "inconclusive", "detail": f"{row['name']} -> {row['got']}"}
    return {"verdict": "holds", "detail": "SPEC parse is first in priority order"}
