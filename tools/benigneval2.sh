#!/bin/bash
# usage: tools/benigneval2.sh <dir with patch.diff> <property ids...>   (parallel-safe variant of benigneval.sh)
# A behaviour-preserving refactoring must not raise an alarm: runs the quick checks against the patched
# scratch worktree; one line per (patch, property) on stdout.
D=$(realpath "$1"); shift
OUT=${SEEDOUT:-/tmp/bev}; mkdir -p $OUT /tmp/ev
TAG=$(basename $(dirname $D))-$(basename $D)
WT=/tmp/ev/bwt2_$$
git -C /repo worktree add --detach $WT HEAD -q || exit 9
trap "git -C /repo worktree remove --force $WT; rm -rf /tmp/ev/bevid_$$" EXIT
git -C $WT apply $D/patch.diff || { echo "$TAG PATCH-DOES-NOT-APPLY"; exit 8; }
T=$(cd $WT && timeout 900 /venv/bin/python -m pytest -q -p no:cacheprovider 2>&1 | tail -1)
cd /verif
for PID in "$@"; do
  VERIF_JOBS=${JOBS:-6} VERIF_EVID_DIR=/tmp/ev/bevid_$$ VERIF_REPO=$WT ./check $PID quick > $OUT/$TAG.$PID.log 2>&1; RC=$?
  V=$(grep -c "^VIOLATION" $OUT/$TAG.$PID.log)
  X=$(grep -E "^counterexample|^INCONCLUSIVE|^HARNESS-ERROR" $OUT/$TAG.$PID.log | head -3 | cut -c1-220 | tr '\n' '|')
  echo "$TAG $PID rc=$RC violations=$V tests='$T' :: $(tail -n 1 $OUT/$TAG.$PID.log) :: $X"
done
