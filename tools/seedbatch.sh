#!/bin/bash
# usage: tools/seedbatch.sh <tier> <seed dirs...>   (dirs like /tmp/seed/C05/m1); appends to ${RESULTS:-/tmp/seed/results.txt}
TIER=$1; shift
for d in "$@"; do
  pid=$(basename $(dirname $d)); m=$(basename $d)
  out=$(/verif/tools/seedeval.sh $d $pid $TIER 2>&1 | grep -v conda)
  conf=$(echo "$out" | grep SEED-CONFIRM)
  res=$(echo "$out" | grep CHECK-RESULT)
  nviol=$(echo "$out" | grep -c "^VIOLATION")
  extra=$(echo "$out" | grep -E "INCONCLUSIVE|HARNESS-ERROR" | head -2 | cut -c1-160 | tr '\n' '|')
  echo "$pid/$m $TIER :: $conf :: $res violations=$nviol :: $extra" >> ${RESULTS:-/tmp/seed/results.txt}
done
