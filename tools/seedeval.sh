#!/bin/bash
# usage: tools/seedeval.sh <dir with patch.diff, demo.py> <property id> [tier]
# Confirms a seeded change in a scratch worktree (tests unchanged, demo fails with / passes without),
# then runs ./check <id> <tier> against the patched scratch tree (VERIF_REPO) and prints the verdict.
D=$(realpath "$1"); PID=$2; TIER=${3:-quick}
WT=/tmp/ev/wt_$$
mkdir -p /tmp/ev
git -C /repo worktree add --detach $WT HEAD -q || exit 9
trap "git -C /repo worktree remove --force $WT" EXIT
cd $WT
echo "== unpatched demo"; PYTHONPATH=$WT /venv/bin/python $D/demo.py > /tmp/ev/demo0.$$ 2>&1; R0=$?; tail -2 /tmp/ev/demo0.$$
git apply $D/patch.diff || { echo "PATCH-DOES-NOT-APPLY"; exit 8; }
echo "== tests with patch"; T=$(/venv/bin/python -m pytest -q -p no:cacheprovider 2>&1 | tail -1); echo "$T"
echo "== patched demo"; PYTHONPATH=$WT /venv/bin/python $D/demo.py > /tmp/ev/demo1.$$ 2>&1; R1=$?; tail -3 /tmp/ev/demo1.$$
echo "SEED-CONFIRM demo_unpatched_rc=$R0 demo_patched_rc=$R1 tests='$T'"
cd /verif
echo "== check $PID $TIER against patched tree"
VERIF_REPO=$WT ./check $PID $TIER > /tmp/ev/check.$$ 2>&1; RC=$?
grep -E "VIOLATION|INCONCLUSIVE|HARNESS-ERROR|KNOWN|^\[" /tmp/ev/check.$$ | cut -c1-300 | head -12
echo "CHECK-RESULT property=$PID tier=$TIER rc=$RC"
rm -f /tmp/ev/demo0.$$ /tmp/ev/demo1.$$ /tmp/ev/check.$$
