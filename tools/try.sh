#!/bin/bash
# dev helper: tools/try.sh <seed dir> <module> <fn> <timeout> [ENV=VAL ...]  - one harness against a seeded change
D=$1; shift
WT=/tmp/ev/try_$$; mkdir -p /tmp/ev
git -C /repo worktree add --detach $WT HEAD -q || exit 9
trap "git -C /repo worktree remove --force $WT" EXIT
git -C $WT apply $D/patch.diff || exit 8
cd /verif; VERIF_REPO=$WT ./tools_ch.sh "$@" 2>&1 | tail -n 3 | cut -c1-900
