#!/bin/bash
# usage: tools/benigneval.sh <dir with patch.diff> <property ids...>
# A behaviour-preserving refactoring must not raise an alarm: runs the quick checks against the
# patched scratch worktree and appends one line per (patch, property) to ${BRESULTS:-/tmp/benign/results.txt}
D=$(realpath "$1"); shift
WT=/tmp/ev/bwt_$$
mkdir -p /tmp/ev
git -C /repo worktree add --detach $WT HEAD -q || exit 9
trap "git -C /repo worktree remove --force $WT" EXIT
cd $WT
git apply $D/patch.diff || { echo "$D PATCH-DOES-NOT-APPLY" >> ${BRESULTS:-/tmp/benign/results.txt}; exit 8; }
T=$(/venv/bin/python -m pytest -q -p no:cacheprovider 2>&1 | tail -1)
cd /verif
for PID in "$@"; do
  VERIF_REPO=$WT ./check $PID quick > /tmp/ev/bcheck.$$ 2>&1; RC=$?
  V=$(grep -c "^VIOLATION" /tmp/ev/bcheck.$$)
  X=$(grep -E "^VIOLATION|^counterexample|INCONCLUSIVE|HARNESS-ERROR" /tmp/ev/bcheck.$$ | head -3 | cut -c1-220 | tr '\n' '|')
  S=$(tail -1 /tmp/ev/bcheck.$$)
  echo "$(basename $(dirname $D))/$(basename $D) $PID rc=$RC violations=$V tests='$T' :: $S :: $X" >> ${BRESULTS:-/tmp/benign/results.txt}
done
rm -f /tmp/ev/bcheck.$$
