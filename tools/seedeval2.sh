#!/bin/bash
# usage: tools/seedeval2.sh <dir with patch.diff, demo.py> <property id> [tier] [jobs]
# Like seedeval.sh, but safe to run several at a time: own scratch worktree, own scratch evidence
# directory (VERIF_EVID_DIR), full check log kept next to the results.
#   1. confirms the seeded change in a scratch worktree of /repo HEAD (unedited test suite gives the
#      same result, demo exits 0 without / non-zero with the patch);
#   2. runs ./check <id> <tier> against the patched scratch tree (VERIF_REPO) and prints one line.
D=$(realpath "$1"); PID=$2; TIER=${3:-quick}; JOBS=${4:-16}
OUT=${SEEDOUT:-/tmp/ev4}; mkdir -p $OUT
TAG=$(basename $(dirname $D))-$(basename $D)
WT=/tmp/ev/wt2_$$
mkdir -p /tmp/ev
git -C /repo worktree add --detach $WT HEAD -q || exit 9
trap "git -C /repo worktree remove --force $WT; rm -rf /tmp/ev/evid_$$" EXIT
cd $WT
PYTHONPATH=$WT timeout 600 /venv/bin/python $D/demo.py > $OUT/$TAG.demo0 2>&1; R0=$?
git apply $D/patch.diff || { echo "$TAG PATCH-DOES-NOT-APPLY"; exit 8; }
T=$(timeout 900 /venv/bin/python -m pytest -q -p no:cacheprovider 2>&1 | tail -1)
PYTHONPATH=$WT timeout 600 /venv/bin/python $D/demo.py > $OUT/$TAG.demo1 2>&1; R1=$?
cd ${VERIF_HOME:-/verif}
VERIF_JOBS=$JOBS VERIF_EVID_DIR=/tmp/ev/evid_$$ VERIF_REPO=$WT timeout ${SEEDEVAL_TIMEOUT:-2400} ./check $PID $TIER > $OUT/$TAG.$PID.$TIER.log 2>&1; RC=$?
NV=$(grep -c "^VIOLATION" $OUT/$TAG.$PID.$TIER.log)
X=$(grep -E "^counterexample|^INCONCLUSIVE|^HARNESS-ERROR" $OUT/$TAG.$PID.$TIER.log | head -3 | cut -c1-200 | tr '\n' '|')
echo "$TAG check=$PID/$TIER rc=$RC violations=$NV demo0=$R0 demo1=$R1 tests='$T' :: $X"
